// demonstration for D10: a hostile NSEC3 owner label must be rejected, not panic
#![cfg(nlnetlabs_domain_verif)]
use domain::base::name::Label;
use domain::dnssec::validator::verif_hooks::nsec3_label_to_hash;
#[test]
fn hostile_nsec3_owner_label_is_an_error_not_a_panic() {
    let label = Label::from_slice(b"!!!not-base32hex!!!").unwrap();
    assert!(nsec3_label_to_hash(label).is_err());
    let ok = Label::from_slice(b"CPNMU").unwrap();
    assert_eq!(nsec3_label_to_hash(ok).unwrap().as_slice(), b"foo");
}
