#![cfg(feature = "unstable-new")]
use domain::base::name::ParsedName;
use domain::base::ToName;
use domain::new::base::name::NameBuf;
use domain::new::base::parse::SplitMessageBytes;
use octseq::parse::Parser;
#[test]
fn pointer_into_own_name() {
    // 12 header octets, then: label of one octet 0x00, pointer to offset 13 (that 0x00 octet, read as the root label)
    let mut msg = vec![0u8; 12];
    msg.extend_from_slice(&[0x01, 0x00, 0xC0, 0x0D]);
    let mut p = Parser::from_ref(&msg[..]);
    p.advance(12).unwrap();
    let old = ParsedName::parse(&mut p);
    let new = NameBuf::split_message_bytes(&msg[12..], 0);
    println!("old accepts: {:?}  new accepts: {}", old.as_ref().map(|n| n.to_name::<Vec<u8>>()), new.is_ok());
    assert_eq!(old.is_ok(), new.is_ok(), "the two codecs disagree on this byte string");
}
