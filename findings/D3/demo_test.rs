// demonstration for D3: ANCOUNT = 0xFFFF must not make canonical_name panic
use domain::base::Message;
#[test]
fn canonical_name_with_maximal_ancount() {
    // header: id 0, flags 0, QDCOUNT 1, ANCOUNT 0xFFFF; question: root name, type A, class IN
    let mut m = vec![0u8, 0, 0, 0, 0, 1, 0xFF, 0xFF, 0, 0, 0, 0];
    m.extend_from_slice(&[0, 0, 1, 0, 1]);
    let msg = Message::from_octets(m).unwrap();
    // no answer records present: the question name is its own canonical name
    assert!(msg.canonical_name().is_some());
}
