// demonstration for D4: a reply whose question is not AXFR/IXFR must be rejected with an error
#![cfg(feature = "unstable-zonetree")]
use bytes::Bytes;
use domain::base::iana::Class;
use domain::base::{Message, MessageBuilder, Name, Rtype, Ttl};
use domain::net::xfr::protocol::XfrResponseInterpreter;
use domain::rdata::A;
#[test]
fn non_xfr_question_is_an_error_not_a_panic() {
    let mut b = MessageBuilder::new_vec();
    b.header_mut().set_qr(true);
    let mut q = b.question();
    q.push((Name::<Vec<u8>>::root(), Rtype::A)).unwrap();
    let mut a = q.answer();
    a.push((Name::<Vec<u8>>::root(), Class::IN, Ttl::from_secs(1), A::from_octets(1, 2, 3, 4))).unwrap();
    let msg = Message::from_octets(Bytes::from(a.finish())).unwrap();
    let mut interp = XfrResponseInterpreter::new();
    assert!(interp.interpret_response(msg).is_err());
}
