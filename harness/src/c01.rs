//! C01 — read-side totality.
// @@prop: C01
// @@fs: core
// @@timeout: 900
use crate::refmodel::*;
use domain::base::name::Label;

// @funcs: Label::iter_slice, SliceLabelsIter::next, Label::split_from
// @bound: every slice of 0..=6 fully symbolic octets, every start 0..=7; one next() must finish within N+2 loop rounds (iterator state is one index < N, so more rounds revisit a state = non-termination)
// @termination: true
#[kani::proof]
#[kani::unwind(9)]
fn c01_iter_slice_next_terminates() {
    let buf: [u8; 6] = kani::any();
    let n: usize = kani::any();
    kani::assume(n <= 6);
    let start: usize = kani::any();
    kani::assume(start <= 7);
    let mut it = Label::iter_slice(&buf[..n], start);
    let first = it.next();
    if let Some(l) = first {
        assert!(l.len() <= 63);
    }
    kani::cover!(first.is_some(), "a label is returned");
    kani::cover!(first.is_none() && start < n, "malformed input ends iteration");
}

// @funcs: Label::iter_slice, SliceLabelsIter::next
// @bound: every slice of 0..=6 symbolic octets, any start; three successive next() calls each terminate, and once None was returned the iterator stays fused
// @termination: true
#[kani::proof]
#[kani::unwind(9)]
fn c01_iter_slice_fused() {
    let buf: [u8; 6] = kani::any();
    let n: usize = kani::any();
    kani::assume(n <= 6);
    let start: usize = kani::any();
    kani::assume(start <= 7);
    let mut it = Label::iter_slice(&buf[..n], start);
    let a = it.next();
    let b = it.next();
    let c = it.next();
    if a.is_none() {
        assert!(b.is_none());
    }
    if b.is_none() {
        assert!(c.is_none());
    }
    if let Some(l) = a {
        if l.is_root() {
            assert!(b.is_none());
        }
    }
    kani::cover!(a.is_some() && b.is_some() && c.is_some(), "three labels");
}
