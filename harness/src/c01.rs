//! C01 — read-side totality.
// @@prop: C01
// @@fs: core
// @@timeout: 900
use crate::refmodel::*;
use domain::base::name::Label;

// @funcs: Label::iter_slice, SliceLabelsIter::next, Label::split_from
// @bound: every slice of 0..=6 fully symbolic octets, every start 0..=7; one next() must finish within N+2 loop rounds (iterator state is one index < N, so more rounds revisit a state = non-termination)
// @termination: true
#[kani::proof]
#[kani::unwind(9)]
fn c01_iter_slice_next_terminates() {
    let buf: [u8; 6] = kani::any();
    let n: usize = kani::any();
    kani::assume(n <= 6);
    let start: usize = kani::any();
    kani::assume(start <= 7);
    let mut it = Label::iter_slice(&buf[..n], start);
    let first = it.next();
    if let Some(l) = first {
        assert!(l.len() <= 63);
    }
    kani::cover!(first.is_some(), "a label is returned");
    kani::cover!(first.is_none() && start < n, "malformed input ends iteration");
}

// @funcs: Label::iter_slice, SliceLabelsIter::next
// @bound: every slice of 0..=6 symbolic octets, any start; three successive next() calls each terminate, and once None was returned the iterator stays fused
// @termination: true
#[kani::proof]
#[kani::unwind(9)]
fn c01_iter_slice_fused() {
    let buf: [u8; 6] = kani::any();
    let n: usize = kani::any();
    kani::assume(n <= 6);
    let start: usize = kani::any();
    kani::assume(start <= 7);
    let mut it = Label::iter_slice(&buf[..n], start);
    let a = it.next();
    let b = it.next();
    let c = it.next();
    if a.is_none() {
        assert!(b.is_none());
    }
    if b.is_none() {
        assert!(c.is_none());
    }
    if let Some(l) = a {
        if l.is_root() {
            assert!(b.is_none());
        }
    }
    kani::cover!(a.is_some() && b.is_some() && c.is_some(), "three labels");
}

use domain::base::name::{ParsedName, ToLabelIter};
use octseq::parse::Parser;

// @funcs: ParsedName::skip, LabelType::parse, Parser::advance
// @bound: a 262-octet message holding at offset 1 a name of exactly four labels with symbolic lengths 1..=63 (arbitrary content) ended by a root label or by a compression pointer: skip succeeds <=> the uncompressed part is at most 255 octets, and then stops right behind the name
// @assume: four labels, terminator in {root, pointer}
// @stub: core::slice::index::slice_index_fail -> panic without formatted message
#[kani::proof]
#[kani::unwind(7)]
#[kani::stub(core::slice::index::slice_index_fail, crate::stubs::slice_index_fail)]
fn c01_skip_length_limit() {
    let mut buf: [u8; 262] = kani::any();
    buf[0] = 0;
    let mut pos = 1usize;
    let mut total = 0usize;
    let mut i = 0;
    while i < 4 {
        let l: usize = kani::any();
        kani::assume(l >= 1 && l <= 63);
        buf[pos] = l as u8;
        pos += l + 1;
        total += l + 1;
        i += 1;
    }
    let ptr: bool = kani::any();
    if ptr {
        buf[pos] = 0xC0;
        buf[pos + 1] = 0;
    } else {
        buf[pos] = 0;
        total += 1;
    }
    let mut p = Parser::from_ref(&buf[..]);
    p.seek(1).unwrap();
    match ParsedName::skip(&mut p) {
        Ok(()) => {
            assert!(total <= 255);
            assert!(p.pos() == pos + if ptr { 2 } else { 1 });
        }
        Err(_) => assert!(total > 255),
    }
    kani::cover!(total == 255 && !ptr, "maximal uncompressed name");
    kani::cover!(total == 256, "one octet too long");
}

// @tier: experimental
// @timeout: 7200
// @mem: 40
// @funcs: Opt::from_octets, Opt::check_slice, Opt::iter::<AllOptData>, OptIter::{next,next_step}, every EDNS option's parse_option (NSID, DAU/DHU/N3U, Expire, TcpKeepalive, Padding, ClientSubnet, Cookie, Chain, KeyTag, ExtendedError, unknown)
// @bound: every OPT RDATA of exactly 8 fully symbolic octets (one option header with any code and any announced length + 4 data octets; attacker-controlled): validation and typed iteration over all known option types never panic, terminate after at most two items, and stay fused after the end / first error
// @outside: longer option areas, several options; the OPT record header (needs record parsing, i.e. ParsedName::parse_ref)
#[kani::proof]
#[kani::unwind(8)]
#[kani::stub(core::slice::index::slice_index_fail, crate::stubs::slice_index_fail)]
fn c01_opt_options_total() {
    use domain::base::name::Name;
    use domain::base::opt::{AllOptData, Opt};
    let buf: [u8; 8] = kani::any();
    let opt = match Opt::from_octets(&buf[..]) {
        Ok(o) => o,
        Err(_) => return, // framing error: the option announces more data than there is
    };
    let mut it = opt.iter::<AllOptData<&[u8], Name<&[u8]>>>();
    let a = it.next();
    let b = it.next();
    let c = it.next();
    assert!(c.is_none());
    if let Some(Err(_)) = a {
        assert!(b.is_none());
    }
    kani::cover!(matches!(a, Some(Ok(_))) && b.is_none(), "one option parsed");
    kani::cover!(matches!(a, Some(Err(_))), "malformed option rejected");
}

// @funcs: Message::from_octets, Message::{header,header_counts,is_error,as_slice}, Header::{id,qr,opcode,aa,tc,rd,ra,z,ad,cd,rcode}, HeaderCounts::{qdcount,ancount,nscount,arcount}
// @bound: every octet string of 0..=14 symbolic octets offered as a message: accepted <=> at least 12 octets; every header accessor returns the RFC 1035 4.1.1 / RFC 2535 bit field of the 12 header octets (independent bit arithmetic); nothing panics
// @outside: everything after the header
#[kani::proof]
#[kani::unwind(4)]
fn c01_header_view_is_total_and_exact() {
    use domain::base::Message;
    let buf: [u8; 14] = kani::any();
    let n: usize = kani::any();
    kani::assume(n <= 14);
    match Message::from_octets(&buf[..n]) {
        Err(_) => assert!(n < 12),
        Ok(m) => {
            assert!(n >= 12);
            let h = m.header();
            assert!(h.id() == ((buf[0] as u16) << 8 | buf[1] as u16));
            assert!(h.qr() == (buf[2] & 0x80 != 0));
            assert!(h.opcode().to_int() == (buf[2] >> 3) & 0x0F);
            assert!(h.aa() == (buf[2] & 0x04 != 0));
            assert!(h.tc() == (buf[2] & 0x02 != 0));
            assert!(h.rd() == (buf[2] & 0x01 != 0));
            assert!(h.ra() == (buf[3] & 0x80 != 0));
            assert!(h.z() == (buf[3] & 0x40 != 0));
            assert!(h.ad() == (buf[3] & 0x20 != 0));
            assert!(h.cd() == (buf[3] & 0x10 != 0));
            assert!(h.rcode().to_int() == buf[3] & 0x0F);
            let c = m.header_counts();
            assert!(c.qdcount() == ((buf[4] as u16) << 8 | buf[5] as u16));
            assert!(c.ancount() == ((buf[6] as u16) << 8 | buf[7] as u16));
            assert!(c.nscount() == ((buf[8] as u16) << 8 | buf[9] as u16));
            assert!(c.arcount() == ((buf[10] as u16) << 8 | buf[11] as u16));
            assert!(m.is_error() == (buf[3] & 0x0F != 0));
            assert!(m.as_slice().len() == n);
        }
    }
}

// @funcs: RtypeBitmap::{from_octets,iter,contains,is_empty}, RtypeBitmapIter::{new,next,advance}, read_window
// @bound: every NSEC/NSEC3 type bitmap of 0..=4 fully symbolic octets (attacker-controlled RDATA tail): if the parser accepts it, creating the iterator, taking its first item, a membership test and is_empty never panic and terminate
// @outside: bitmaps longer than 4 octets, iterating past the first item (the bit-by-bit scan exhausts CBMC), Display of the type mnemonics
#[kani::proof]
#[kani::unwind(20)]
fn c01_accepted_type_bitmap_can_be_used() {
    use domain::base::iana::Rtype;
    use domain::rdata::dnssec::RtypeBitmap;
    let buf: [u8; 4] = kani::any();
    let n: usize = kani::any();
    kani::assume(n <= 4);
    if let Ok(bm) = RtypeBitmap::from_octets(&buf[..n]) {
        let first = bm.iter().next();
        let probe: u16 = kani::any();
        let hit = bm.contains(Rtype::from_int(probe));
        assert!(bm.is_empty() == first.is_none());
        if first.is_none() {
            assert!(!hit);
        }
        kani::cover!(first.is_some(), "a type is listed");
    }
}
