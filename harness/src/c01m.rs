//! C01 / C05 — readers built on the compressed-name reader: the question
//! section of a message view, and the parse side of name-bearing RDATA.
//! Same technique as c01p.rs (per-loop bounds for parse_ref, reference
//! reader with budgets).
// @@prop: C01
// @@fs: core
// @@timeout: 1500
use crate::refmodel::*;
use domain::base::name::{ParsedName, ToLabelIter};
use domain::base::rdata::ComposeRecordData;
use domain::base::Message;
use domain::rdata::{Cname, Mx};
use octseq::parse::Parser;

/// labels of `n` equal the flat reference form out[..flen]
fn same_labels(n: &ParsedName<&[u8]>, out: &[u8; 32], flen: usize, labels: usize) {
    let mut o = 0usize;
    let mut k = 0usize;
    let mut it = n.iter();
    while k < labels + 1 {
        let l = match it.next() {
            Some(l) => l,
            None => break,
        };
        assert!(o < flen);
        assert!(l.len() == out[o] as usize);
        let s = l.as_slice();
        let mut i = 0;
        while i < 18 && i < s.len() {
            assert!(s[i] == out[o + 1 + i]);
            i += 1;
        }
        o += 1 + s.len();
        k += 1;
    }
    assert!(it.next().is_none());
    assert!(o == flen);
}

// @tier: thorough
// @timeout: 3000
// @funcs: Message::from_octets, Message::question, QuestionSection::next, Question::parse, ParsedName::parse, ParsedName::parse_ref, Rtype::parse, Class::parse, Message::first_question, Message::sole_question
// @bound: every 18-octet message with QDCOUNT = 1 and the other counts 0 (ID, flags and the 6 octets behind the header symbolic; pointers may point into the header): the first question is returned <=> the reference reader accepts the name at offset 12 and four more octets follow; name labels, QTYPE and QCLASS are the referenced octets; asking twice gives the same answer
// @assume: reference reader decides within 2 labels and 1 hop
// @unwindset: ::parse_ref$.0=3; ::parse_ref$.1=2; ::parse_ref$.2=3
// @stub: core::slice::index::slice_index_fail -> panic without formatted message
// @termination: true
// @outside: more questions, longer messages, record sections
#[kani::proof]
#[kani::unwind(20)]
#[kani::stub(core::slice::index::slice_index_fail, crate::stubs::slice_index_fail)]
fn c01_message_first_question_6() {
    let mut buf: [u8; 18] = kani::any();
    buf[4] = 0;
    buf[5] = 1;
    let mut i = 6;
    while i < 12 {
        buf[i] = 0;
        i += 1;
    }
    let mut out = [0u8; 32];
    let want = ref_read_name_b(&buf[..], 12, &mut out, 2, 1);
    kani::assume(want != RefName::Budget);
    let msg = Message::from_octets(&buf[..]).unwrap();
    let q = msg.first_question();
    match (&q, want) {
        (Some(q), RefName::Name(flen, after, _)) => {
            assert!(after + 4 <= 18);
            assert!(q.qname().compose_len() as usize == flen);
            same_labels(q.qname(), &out, flen, 2);
            assert!(q.qtype().to_int() == ((buf[after] as u16) << 8 | buf[after + 1] as u16));
            assert!(q.qclass().to_int() == ((buf[after + 2] as u16) << 8 | buf[after + 3] as u16));
            kani::cover!(flen > 1, "question with a non-root name");
        }
        (None, RefName::Name(_, after, _)) => assert!(after + 4 > 18),
        (None, _) => {}
        (Some(_), _) => assert!(false, "question returned although the name is malformed"),
    }
    // traversing twice yields the same result
    let q2 = msg.first_question();
    assert!(q.is_some() == q2.is_some());
    assert!(msg.sole_question().is_ok() == q.is_some());
}

// ------------------------------------------------------------------ C05
macro_rules! one_name_rdata_parse {
    ($ty:ident, $prefix:expr, $get:ident) => {{
        // RDATA at offset 2 of an 8-octet message: $prefix fixed octets, then the name
        let buf: [u8; 8] = kani::any();
        let npos = 2 + $prefix;
        let mut out = [0u8; 32];
        let want = ref_read_name_b(&buf[..], npos, &mut out, 2, 1);
        kani::assume(want != RefName::Budget);
        let mut p = Parser::from_ref(&buf[..]);
        p.seek(2).unwrap();
        match ($ty::<ParsedName<&[u8]>>::parse(&mut p), want) {
            (Ok(v), RefName::Name(flen, after, _)) => {
                assert!(p.pos() == after);
                same_labels(v.$get(), &out, flen, 2);
                // re-compose: uncompressed wire form of the same value
                let mut b = FixedBuf::<32> { data: [0; 32], len: 0 };
                v.compose_rdata(&mut b).unwrap();
                assert!(b.len == $prefix + flen);
                let mut i = 0;
                while i < $prefix {
                    assert!(b.data[i] == buf[2 + i]);
                    i += 1;
                }
                let mut i = 0;
                while i < 8 && i < flen {
                    assert!(b.data[$prefix + i] == out[i]);
                    i += 1;
                }
                if let Some(l) = v.rdlen(false) {
                    assert!(l as usize == b.len);
                }
                kani::cover!(flen > 1, "accepted RDATA with a non-root name");
                true
            }
            (Err(_), RefName::Malformed) => false,
            (Ok(_), _) => {
                assert!(false, "RDATA accepted although the embedded name is malformed");
                false
            }
            (Err(_), _) => {
                assert!(false, "RDATA rejected although the embedded name is well-formed");
                false
            }
        }
    }};
}

// @prop: C05
// @funcs: Mx::parse, u16::parse, ParsedName::parse, ParsedName::parse_ref, Mx::compose_rdata, Mx::rdlen, ParsedName::iter
// @bound: MX RDATA at offset 2 of every 8-octet message (preference + 4 octets of name area, all symbolic, possibly compressed into the octets before): accepted <=> the reference reader accepts the exchange name; preference and labels are the referenced octets; the value re-composes to preference + uncompressed name and rdlen agrees
// @assume: reference reader decides within 2 labels and 1 hop
// @unwindset: ::parse_ref$.0=3; ::parse_ref$.1=2; ::parse_ref$.2=3
// @stub: core::slice::index::slice_index_fail -> panic without formatted message
// @termination: true
#[kani::proof]
#[kani::unwind(10)]
#[kani::stub(core::slice::index::slice_index_fail, crate::stubs::slice_index_fail)]
fn c05_mx_parse_side() {
    let _ = one_name_rdata_parse!(Mx, 2, exchange);
}

// @prop: C05
// @tier: thorough
// @timeout: 3000
// @funcs: Cname::parse, ParsedName::parse, ParsedName::parse_ref, Cname::compose_rdata, Cname::rdlen
// @bound: CNAME RDATA (the shape shared by NS, PTR, DNAME, MB, MD, MF, MG, MR through one macro) at offset 2 of every 8-octet message: same oracle as c05_mx_parse_side with no fixed prefix
// @assume: reference reader decides within 2 labels and 1 hop
// @unwindset: ::parse_ref$.0=3; ::parse_ref$.1=2; ::parse_ref$.2=3
// @stub: core::slice::index::slice_index_fail -> panic without formatted message
// @termination: true
#[kani::proof]
#[kani::unwind(10)]
#[kani::stub(core::slice::index::slice_index_fail, crate::stubs::slice_index_fail)]
fn c05_cname_parse_side() {
    let _ = one_name_rdata_parse!(Cname, 0, cname);
}

// @tier: thorough
// @timeout: 4000
// @funcs: Message::answer, QuestionSection::answer (Question::skip, ParsedName::skip), RecordSection::next, ParsedRecord::parse, RecordHeader::parse, ParsedName::parse_ref, ParsedRecord::{rtype,class,ttl,rdlen,to_record}, A::parse, RecordHeader::parse_into_record
// @bound: every 33-octet message with ID and flags zero, QDCOUNT = 1, ANCOUNT = 1, a root question name (QTYPE/QCLASS symbolic) and 16 symbolic octets behind the question (owner name possibly compressed into the header or the question, TYPE, CLASS, TTL, RDLENGTH, RDATA): the answer section yields exactly one item; it is a record <=> the reference reader accepts the owner and header + RDLENGTH octets fit into the message; its fields are the referenced octets; typed A parsing succeeds <=> TYPE = A needs RDLENGTH = 4 (other types: not this type); afterwards the iterator is exhausted; nothing panics
// @assume: reference reader decides the owner within 1 label of at most 4 octets and 1 hop
// @unwindset: ::parse_ref$.0=2; ::parse_ref$.1=2; ::parse_ref$.2=2
// @mem: 30
// @stub: core::slice::index::slice_index_fail -> panic without formatted message
// @termination: true
// @outside: several records, other typed RDATA, authority/additional sections
#[kani::proof]
#[kani::unwind(8)]
#[kani::stub(core::slice::index::slice_index_fail, crate::stubs::slice_index_fail)]
fn c01_message_answer_one_record() {
    use domain::base::iana::Rtype;
    use domain::rdata::A;
    const N: usize = 33;
    let mut buf: [u8; N] = kani::any();
    buf[0] = 0;
    buf[1] = 0;
    buf[2] = 0;
    buf[3] = 0;
    buf[4] = 0;
    buf[5] = 1;
    buf[6] = 0;
    buf[7] = 1;
    buf[8] = 0;
    buf[9] = 0;
    buf[10] = 0;
    buf[11] = 0;
    buf[12] = 0; // root question name; QTYPE/QCLASS at 13..17
    let mut out = [0u8; 32];
    let want = ref_read_name_bl(&buf[..], 17, &mut out, 1, 1, 4);
    kani::assume(want != RefName::Budget);
    let msg = Message::from_octets(&buf[..]).unwrap();
    let mut ans = match msg.answer() {
        Ok(a) => a,
        Err(_) => {
            assert!(false, "a well-formed question section must be skippable");
            return;
        }
    };
    let first = ans.next();
    let complete = match want {
        RefName::Name(_, after, _) => {
            after + 10 <= N && after + 10 + (((buf[after + 8] as usize) << 8) | buf[after + 9] as usize) <= N
        }
        _ => false,
    };
    match first {
        Some(Ok(rec)) => {
            assert!(complete);
            if let RefName::Name(flen, after, _) = want {
                assert!(rec.owner().compose_len() as usize == flen);
                assert!(rec.rtype().to_int() == ((buf[after] as u16) << 8 | buf[after + 1] as u16));
                assert!(rec.class().to_int() == ((buf[after + 2] as u16) << 8 | buf[after + 3] as u16));
                assert!(rec.ttl().as_secs() == u32::from_be_bytes([buf[after + 4], buf[after + 5], buf[after + 6], buf[after + 7]]));
                let rdlen = ((buf[after + 8] as u16) << 8) | buf[after + 9] as u16;
                assert!(rec.rdlen() == rdlen);
                match rec.to_record::<A>() {
                    Ok(Some(a)) => {
                        assert!(rec.rtype() == Rtype::A && rdlen == 4);
                        let o = a.data().addr().octets();
                        assert!(o[0] == buf[after + 10] && o[3] == buf[after + 13]);
                    }
                    Ok(None) => assert!(rec.rtype() != Rtype::A),
                    Err(_) => assert!(rec.rtype() == Rtype::A && rdlen != 4),
                }
                kani::cover!(rec.rtype() == Rtype::A && rdlen == 4 && flen > 1, "typed A record under a non-root owner");
            }
        }
        Some(Err(_)) => assert!(!complete),
        None => assert!(false, "ANCOUNT = 1 but the section is empty"),
    }
    // exactly one item: a second call yields nothing (fused after an error too)
    assert!(ans.next().is_none());
}
