//! C01 / C03 — the compressed-name reader `ParsedName::parse_ref`.
//!
//! CBMC lays the second phase of parse_ref (pointer following) *inside* the
//! unrolled first loop (the loop's back edge comes later in program order),
//! so with one global bound n the function costs n^3 loop bodies.  These
//! harnesses therefore give each of its three loops its own bound
//! (`@unwindset`, resolved against the linked GOTO binary by the driver) and
//! assume the inputs for which the independent reference reader needs more
//! labels / pointer hops than that away (`RefName::Budget`).
// @@prop: C01
// @@fs: core
// @@timeout: 600
use crate::refmodel::*;
use domain::base::name::{ParsedName, ToLabelIter};
use octseq::parse::Parser;

/// Differential oracle: library reader vs the independent RFC 1035 4.1.4
/// reader on the same octets, for every input the reference decides within
/// (labels, hops).
fn parse_ref_vs_reference<const N: usize>(buf: &[u8; N], start: usize, labels: usize, hops: usize, cover_len: usize) {
    let mut out = [0u8; 32];
    let want = ref_read_name_b(&buf[..], start, &mut out, labels, hops);
    kani::assume(want != RefName::Budget);
    let mut p = Parser::from_ref(&buf[..]);
    p.seek(start).unwrap();
    let r = ParsedName::parse_ref(&mut p);
    match (r, want) {
        (Ok(n), RefName::Name(flen, after, compressed)) => {
            // the parser stops right behind the name as it appears in the message
            assert!(p.pos() == after);
            assert!(n.compose_len() as usize == flen);
            assert!(n.is_compressed() == compressed);
            // what was returned can be iterated and yields the referenced labels
            let mut o = 0usize;
            let mut k = 0usize;
            let mut it = n.iter();
            while k < labels + 1 {
                let l = match it.next() {
                    Some(l) => l,
                    None => break,
                };
                assert!(o < flen);
                assert!(l.len() == out[o] as usize);
                let s = l.as_slice();
                let mut i = 0;
                while i < N && i < s.len() {
                    assert!(s[i] == out[o + 1 + i]);
                    i += 1;
                }
                o += 1 + s.len();
                k += 1;
            }
            assert!(it.next().is_none());
            assert!(o == flen && k <= labels + 1);
            kani::cover!(flen >= cover_len && compressed, "accepted compressed name with content");
            kani::cover!(!compressed, "accepted name reported as uncompressed");
        }
        (Err(_), RefName::Malformed) => {
            kani::cover!(true, "rejected by both");
        }
        (Ok(_), _) => assert!(false, "library accepts what the reference rejects"),
        (Err(_), _) => assert!(false, "library rejects what the reference accepts"),
    }
}

// @funcs: ParsedName::parse_ref, LabelType::parse, ParsedName::iter, ParsedNameIter::next, ParsedName::is_compressed, ParsedName::compose_len, Parser::{parse_u8,advance,seek,pos}
// @bound: every 6-octet message whose octet 4 starts a compression pointer (0xC0, low target octet symbolic), name read at offset 4, for which the reference reader needs at most 2 labels and 2 pointer hops: accept/reject, end position, uncompressed length, compressed flag and every label equal the independent RFC 1035 4.1.4 reader; no panic, no read outside the message; each of parse_ref's loops ends within its bound
// @assume: reference reader decides within 2 labels and 2 hops (label-bearing pointer cycles, which parse_ref ends only through the 255-octet limit after up to 127 rounds, are outside)
// @unwindset: ::parse_ref$.0=4; ::parse_ref$.1=3; ::parse_ref$.2=2
// @unwindset_fallback: base/name/parsed\.rs=4
// @stub: core::slice::index::slice_index_fail -> panic without formatted message
// @termination: true
// @outside: pointers with a non-zero high part (message < 256 octets), longer messages, more labels/hops
#[kani::proof]
#[kani::unwind(8)]
#[kani::stub(core::slice::index::slice_index_fail, crate::stubs::slice_index_fail)]
fn c01_parse_ref_pointer_first_6() {
    let mut buf: [u8; 6] = kani::any();
    buf[4] = 0xC0;
    parse_ref_vs_reference(&buf, 4, 2, 2, 4);
}

// @funcs: ParsedName::parse_ref, LabelType::parse, ParsedName::iter, ParsedNameIter::next, ParsedName::is_compressed, Parser::{parse_u8,advance,seek,pos}
// @bound: every 4-octet message, name read at offset 0 or 1, all octets symbolic (labels, pointers, reserved label types, truncation), for which the reference reader needs at most 2 labels and 1 hop: same oracle as above
// @assume: reference reader decides within 2 labels and 1 hop
// @unwindset: ::parse_ref$.0=3; ::parse_ref$.1=2; ::parse_ref$.2=3
// @unwindset_fallback: base/name/parsed\.rs=4
// @stub: core::slice::index::slice_index_fail -> panic without formatted message
// @termination: true
#[kani::proof]
#[kani::unwind(6)]
#[kani::stub(core::slice::index::slice_index_fail, crate::stubs::slice_index_fail)]
fn c01_parse_ref_any_4() {
    let buf: [u8; 4] = kani::any();
    let start: usize = kani::any();
    kani::assume(start <= 1);
    parse_ref_vs_reference(&buf, start, 2, 1, 3);
}

// @tier: thorough
// @timeout: 3000
// @funcs: ParsedName::parse_ref, LabelType::parse, ParsedName::iter, ParsedNameIter::next
// @bound: every 8-octet message whose octet 5 starts a compression pointer, name read at offset 5, reference within 3 labels and 3 hops
// @assume: reference reader decides within 3 labels and 3 hops
// @unwindset: ::parse_ref$.0=5; ::parse_ref$.1=4; ::parse_ref$.2=2
// @stub: core::slice::index::slice_index_fail -> panic without formatted message
// @termination: true
#[kani::proof]
#[kani::unwind(10)]
#[kani::stub(core::slice::index::slice_index_fail, crate::stubs::slice_index_fail)]
fn c01_parse_ref_pointer_first_8() {
    let mut buf: [u8; 8] = kani::any();
    buf[5] = 0xC0;
    parse_ref_vs_reference(&buf, 5, 3, 3, 6);
}

// @prop: C03
// @funcs: ParsedName::parse_ref, LabelType::parse, Parser::advance, ParsedName::compose_len
// @bound: a 330-octet message holding at offset 70 a name of four labels with symbolic lengths 1..=63, ended by (a) the root label, (b) a pointer to a root label, or (c) a pointer to one more label of symbolic length 1..=63 followed by the root: parse_ref accepts <=> the decompressed name is at most 255 octets long, reports exactly that length and stops right behind the name's own octets
// @assume: four labels in the first part; terminator in {root, pointer->root, pointer->label+root}
// @unwindset: ::parse_ref$.0=3; ::parse_ref$.1=2; ::parse_ref$.2=6
// @stub: core::slice::index::slice_index_fail -> panic without formatted message
#[kani::proof]
#[kani::unwind(7)]
#[kani::stub(core::slice::index::slice_index_fail, crate::stubs::slice_index_fail)]
fn c03_parse_ref_length_limit() {
    let mut buf: [u8; 330] = kani::any();
    // targets for the pointers: a lone root at 0; label + root at 1
    buf[0] = 0;
    let l5: usize = kani::any();
    kani::assume(l5 >= 1 && l5 <= 63);
    buf[1] = l5 as u8;
    buf[2 + l5] = 0;
    let mut pos = 70usize;
    let mut total = 0usize;
    let mut i = 0;
    while i < 4 {
        let l: usize = kani::any();
        kani::assume(l >= 1 && l <= 63);
        buf[pos] = l as u8;
        pos += l + 1;
        total += l + 1;
        i += 1;
    }
    let term: u8 = kani::any();
    kani::assume(term < 3);
    let (flat, after) = match term {
        0 => {
            buf[pos] = 0;
            (total + 1, pos + 1)
        }
        1 => {
            buf[pos] = 0xC0;
            buf[pos + 1] = 0;
            (total + 1, pos + 2)
        }
        _ => {
            buf[pos] = 0xC0;
            buf[pos + 1] = 1;
            (total + l5 + 2, pos + 2)
        }
    };
    let mut p = Parser::from_ref(&buf[..]);
    p.seek(70).unwrap();
    match ParsedName::parse_ref(&mut p) {
        Ok(n) => {
            assert!(flat <= 255);
            assert!(n.compose_len() as usize == flat);
            assert!(p.pos() == after);
            assert!(n.is_compressed() == (term != 0));
        }
        Err(_) => assert!(flat > 255),
    }
    kani::cover!(flat == 255 && term == 0, "255-octet uncompressed name accepted");
    kani::cover!(flat == 255 && term == 2, "255-octet name whose last label sits behind a pointer");
    kani::cover!(flat == 256 && term == 1, "256 octets through a pointer to the root");
}
