//! C02 — built messages parse back to what was pushed.
// @@prop: C02
// @@fs: core
// @@timeout: 900
use crate::refmodel::*;
use domain::base::iana::{Class, Rtype};
use domain::base::message_builder::{verif_hooks, MessageBuilder, StaticCompressor};
use domain::base::name::Name;
use domain::base::Ttl;
use domain::rdata::{Ns, A};
use octseq::builder::Truncate;

// ------------------------------------------------ lemma A: position guards

// @funcs: StaticCompressor::insert (via hook), HashEntry::new (via hook)
// @bound: every usize position (full width): a position is only remembered for later pointers if it fits the 14-bit pointer offset (< 0x4000)
#[kani::proof]
#[kani::unwind(4)]
fn c02_compressors_remember_only_pointable_positions() {
    let pos: usize = kani::any();
    let mut c = StaticCompressor::new(FixedBufM::<4> { data: [0; 4], len: 0 });
    if verif_hooks::static_insert(&mut c, pos) {
        assert!(pos < 0x4000);
        let e = verif_hooks::static_entries(&c);
        assert!(e.len() == 1 && e[0] as usize == pos);
    }
    let tail: usize = kani::any();
    kani::assume(tail >= pos && tail <= pos.wrapping_add(64) && tail <= 0xFFFF);
    if let Some((h, t)) = verif_hooks::hash_entry_new(pos, tail) {
        assert!(pos < 0x4000);
        assert!(h as usize == pos && t as usize == tail);
    }
    kani::cover!(pos == 0x3FFF, "largest pointable position");
}

// @funcs: <StaticCompressor as Truncate>::truncate, StaticCompressor::insert
// @bound: three remembered positions p1 < p2 < p3 (any values below 0x4000), any truncation length: afterwards no remembered position is >= the new length and all smaller ones are kept
#[kani::proof]
#[kani::unwind(30)]
fn c02_static_compressor_truncate_forgets() {
    let (p1, p2, p3): (usize, usize, usize) = (kani::any(), kani::any(), kani::any());
    kani::assume(p1 < p2 && p2 < p3 && p3 < 0x4000);
    let mut c = StaticCompressor::new(FixedBufM::<4> { data: [0; 4], len: 0 });
    assert!(verif_hooks::static_insert(&mut c, p1));
    assert!(verif_hooks::static_insert(&mut c, p2));
    assert!(verif_hooks::static_insert(&mut c, p3));
    let len: usize = kani::any();
    c.truncate(len);
    let e = verif_hooks::static_entries(&c);
    let want = (p1 < len) as usize + (p2 < len) as usize + (p3 < len) as usize;
    assert!(e.len() == want);
    if want >= 1 {
        assert!(e[0] as usize == p1);
    }
    if want >= 2 {
        assert!(e[1] as usize == p2);
    }
    kani::cover!(want == 1, "partial forget");
}

// ---------------------------------------- builder -> independent reader

const CAP: usize = 72;
type T = StaticCompressor<FixedBufM<CAP>>;

fn name_a(c: &[u8; 6]) -> [u8; 7] {
    // "xy.z." : labels (2,1)
    [2, c[0], c[1], 1, c[2], 0, 0]
}
fn name_b(c: &[u8; 6]) -> [u8; 7] {
    // "w.z'." : labels (1,1) - suffix equals name_a's iff c[4] ~ c[2]
    [1, c[3], 1, c[4], 0, 0, 0]
}

struct Rd<'a> {
    msg: &'a [u8],
    pos: usize,
}
impl<'a> Rd<'a> {
    fn u16(&mut self) -> u16 {
        let v = ((self.msg[self.pos] as u16) << 8) | self.msg[self.pos + 1] as u16;
        self.pos += 2;
        v
    }
    fn u32(&mut self) -> u32 {
        let hi = self.u16() as u32;
        let lo = self.u16() as u32;
        (hi << 16) | lo
    }
    fn name_is(&mut self, want: &[u8]) -> bool {
        let mut out = [0u8; 32];
        match ref_read_name(self.msg, self.pos, &mut out, 3, 2) {
            Some((n, after)) => {
                self.pos = after;
                wire_names_eq(&out[..n], want)
            }
            None => false,
        }
    }
}

// @funcs: MessageBuilder::{from_target,question,counts}, QuestionBuilder::push, AnswerBuilder::push, StaticCompressor::{append_compressed_name,get,insert}, Record::compose, Label::iter_slice
// @bound: one question (name xy.z, symbolic type/class) and one A answer whose owner is w.z' (label structure concrete, every label octet symbolic, so whether the suffix is shared - also across case - is decided by the solver); symbolic class/ttl/address; target StaticCompressor<FixedBufM<72>>; read back with an independent RFC 1035 reader
// @outside: longer op sequences, Tree/Hash compressors (hashbrown: out of reach), messages beyond 72 octets
// @tier: experimental
// @timeout: 7200
// @mem: 30
#[kani::proof]
#[kani::unwind(10)]
fn c02_static_compressor_roundtrip_q_a() {
    let c: [u8; 6] = kani::any();
    let (wa, wb) = (name_a(&c), name_b(&c));
    let na = Name::from_octets(&wa[..6]).unwrap();
    let nb = Name::from_octets(&wb[..5]).unwrap();
    let (qt, qc, cl, ttl): (u16, u16, u16, u32) = (kani::any(), kani::any(), kani::any(), kani::any());
    let addr: [u8; 4] = kani::any();
    let target: T = StaticCompressor::new(FixedBufM { data: [0; CAP], len: 0 });
    let mut q = MessageBuilder::from_target(target).unwrap().question();
    q.push((na, Rtype::from_int(qt), Class::from_int(qc))).unwrap();
    let mut an = q.answer();
    an.push((nb, Class::from_int(cl), Ttl::from_secs(ttl), A::from_octets(addr[0], addr[1], addr[2], addr[3]))).unwrap();
    let counts = an.counts();
    assert!(counts.qdcount() == 1 && counts.ancount() == 1 && counts.nscount() == 0 && counts.arcount() == 0);
    let fin = an.finish().into_target();
    let msg = fin.as_slice();
    assert!(msg[4] == 0 && msg[5] == 1 && msg[6] == 0 && msg[7] == 1 && msg[8] == 0 && msg[9] == 0 && msg[10] == 0 && msg[11] == 0);
    let mut r = Rd { msg, pos: 12 };
    assert!(r.name_is(&wa[..6]));
    assert!(r.u16() == qt && r.u16() == qc);
    assert!(r.name_is(&wb[..5]));
    assert!(r.u16() == 1 && r.u16() == cl && r.u32() == ttl);
    assert!(r.u16() == 4);
    assert!(msg[r.pos] == addr[0] && msg[r.pos + 1] == addr[1] && msg[r.pos + 2] == addr[2] && msg[r.pos + 3] == addr[3]);
    r.pos += 4;
    assert!(r.pos == msg.len());
    kani::cover!(msg.len() == 12 + 10 + 4 + 14, "suffix compressed");
    kani::cover!(msg.len() == 12 + 10 + 5 + 14, "nothing compressed");
}

// @tier: experimental
// @timeout: 7200
// @mem: 30
// @funcs: MessageBuilder::{from_target,question,push,answer,authority,finish/as_slice,counts}, QuestionBuilder::push, AnswerBuilder::push, AuthorityBuilder::push, StaticCompressor::{append_compressed_name,get,insert}, Record::compose, Label::iter_slice
// @bound: one question (name xy.z, symbolic type/class), one A answer (owner w.z', symbolic class/ttl/address), one NS authority record (owner xy.z again, target w.z'); label structure concrete, every label octet symbolic (so suffix sharing and case variants are decided by the solver); target StaticCompressor<FixedBufM<72>>; read back with an independent RFC 1035 reader
// @outside: other op sequences, rewinds and failing pushes (separate harness), Tree/Hash compressors (hashbrown: out of reach), messages beyond 72 octets
#[kani::proof]
#[kani::unwind(12)]
fn c02_static_compressor_roundtrip() {
    let c: [u8; 6] = kani::any();
    let (wa, wb) = (name_a(&c), name_b(&c));
    let na = Name::from_octets(&wa[..6]).unwrap();
    let nb = Name::from_octets(&wb[..5]).unwrap();
    let (qt, qc, cl, ttl): (u16, u16, u16, u32) = (kani::any(), kani::any(), kani::any(), kani::any());
    let addr: [u8; 4] = kani::any();
    let target: T = StaticCompressor::new(FixedBufM { data: [0; CAP], len: 0 });
    let mut q = MessageBuilder::from_target(target).unwrap().question();
    q.push((na.clone(), Rtype::from_int(qt), Class::from_int(qc))).unwrap();
    let mut an = q.answer();
    an.push((nb.clone(), Class::from_int(cl), Ttl::from_secs(ttl), A::from_octets(addr[0], addr[1], addr[2], addr[3]))).unwrap();
    let mut au = an.authority();
    au.push((na, Class::from_int(cl), Ttl::from_secs(ttl), Ns::new(nb))).unwrap();
    let counts = au.counts();
    assert!(counts.qdcount() == 1 && counts.ancount() == 1 && counts.nscount() == 1 && counts.arcount() == 0);
    let fin = au.finish().into_target();
    let msg = fin.as_slice();
    // header counts in the octets
    assert!(msg[4] == 0 && msg[5] == 1 && msg[6] == 0 && msg[7] == 1 && msg[8] == 0 && msg[9] == 1 && msg[10] == 0 && msg[11] == 0);
    let mut r = Rd { msg, pos: 12 };
    assert!(r.name_is(&wa[..6]));
    assert!(r.u16() == qt && r.u16() == qc);
    assert!(r.name_is(&wb[..5]));
    assert!(r.u16() == 1 && r.u16() == cl && r.u32() == ttl);
    assert!(r.u16() == 4);
    assert!(msg[r.pos] == addr[0] && msg[r.pos + 3] == addr[3]);
    r.pos += 4;
    assert!(r.name_is(&wa[..6]));
    assert!(r.u16() == 2 && r.u16() == cl && r.u32() == ttl);
    let rdlen = r.u16() as usize;
    let rd_start = r.pos;
    assert!(r.name_is(&wb[..5]));
    assert!(r.pos == rd_start + rdlen);
    assert!(r.pos == msg.len());
    kani::cover!(msg.len() < 12 + 10 + 15 + 17, "some compression happened");
}


// ------------------------------------------- compression fidelity, isolated
use domain::base::wire::Composer;
use octseq::builder::OctetsBuilder;

fn append_two<const L1A: usize, const L1B: usize>() {
    // name A: labels (L1A, 1); name B: labels (L1B, 1); all label octets symbolic
    let c: [u8; 8] = kani::any();
    let mut wa = [0u8; 8];
    let mut wb = [0u8; 8];
    wa[0] = L1A as u8;
    wb[0] = L1B as u8;
    let mut i = 0;
    while i < L1A {
        wa[1 + i] = c[i];
        i += 1;
    }
    let mut i = 0;
    while i < L1B {
        wb[1 + i] = c[3 + i];
        i += 1;
    }
    wa[1 + L1A] = 1;
    wa[2 + L1A] = c[6];
    wa[3 + L1A] = 0;
    wb[1 + L1B] = 1;
    wb[2 + L1B] = c[7];
    wb[3 + L1B] = 0;
    let (la, lb) = (4 + L1A, 4 + L1B);
    let na = Name::from_octets(&wa[..la]).unwrap();
    let nb = Name::from_octets(&wb[..lb]).unwrap();
    let mut t: StaticCompressor<FixedBufM<40>> = StaticCompressor::new(FixedBufM { data: [0; 40], len: 0 });
    t.append_slice(&[0u8; 12]).unwrap();
    t.append_compressed_name(&na).unwrap();
    let mid = t.as_slice().len();
    t.append_compressed_name(&nb).unwrap();
    let fin = t.into_target();
    let msg = fin.as_slice();
    let mut out = [0u8; 32];
    // first name: written in full
    assert!(mid == 12 + la);
    let (n1, after1) = ref_read_name(msg, 12, &mut out, 3, 2).unwrap();
    assert!(after1 == mid && wire_names_eq(&out[..n1], &wa[..la]));
    // second name: whatever the compressor decided, a reader reconstructs name B
    let mut out2 = [0u8; 32];
    let (n2, after2) = ref_read_name(msg, mid, &mut out2, 3, 2).unwrap();
    assert!(after2 == msg.len());
    assert!(wire_names_eq(&out2[..n2], &wb[..lb]));
    // and compression is only used when suffixes really are equal
    let same_suffix = lc(c[6]) == lc(c[7]);
    if msg.len() - mid < lb {
        assert!(same_suffix);
    }
    kani::cover!(msg.len() - mid == 2, "whole name replaced by a pointer");
    kani::cover!(msg.len() - mid == lb, "nothing compressed");
}

// @funcs: StaticCompressor::{append_compressed_name,get,insert}, Label::iter_slice, Label::compose, <Name as ToName>::iter_labels
// @bound: two names with label structures (2,1) and (2,1), every label octet symbolic, appended after a 12-octet header into StaticCompressor<FixedBufM<40>>; an independent reader reconstructs exactly the appended names (case-insensitively); pointers are only emitted for equal suffixes
// @outside: names of more than two labels; Tree/Hash compressors
#[kani::proof]
#[kani::unwind(8)]
fn c02_static_append_two_names_22() {
    append_two::<2, 2>()
}

// @tier: experimental
// @timeout: 7200
// @mem: 30
// @funcs: StaticCompressor::{append_compressed_name,get,insert}, Label::iter_slice
// @bound: as above with label structures (1,1) and (2,1)
#[kani::proof]
#[kani::unwind(8)]
fn c02_static_append_two_names_12() {
    append_two::<1, 2>()
}

// ------------------------------------ builder bookkeeping, no compression
use domain::base::message_builder::StreamTarget;

/// flat name "ab.c." with symbolic label octets
fn flat_abc(c: &[u8; 3]) -> [u8; 6] {
    [2, c[0], c[1], 1, c[2], 0]
}

macro_rules! builder_ops {
    ($name:ident, $mk:expr, $dgram:expr, $prefix:expr) => {
        #[kani::proof]
        #[kani::unwind(10)]
        fn $name() {
            let c: [u8; 3] = kani::any();
            let w = flat_abc(&c);
            let n = Name::from_octets(&w[..]).unwrap();
            let (qt, qc, cl, ttl): (u16, u16, u16, u32) = (kani::any(), kani::any(), kani::any(), kani::any());
            let addr: [u8; 4] = kani::any();
            let mut q = MessageBuilder::from_target($mk).unwrap().question();
            q.push((n.clone(), Rtype::from_int(qt), Class::from_int(qc))).unwrap();
            let mut an = q.answer();
            // first answer: always fits
            an.push((n.clone(), Class::from_int(cl), Ttl::from_secs(ttl), A::from_octets(addr[0], addr[1], addr[2], addr[3]))).unwrap();
            let before_len = an.as_slice().len();
            assert!(before_len == 12 + 10 + 20);
            let probe: usize = kani::any();
            kani::assume(probe < before_len);
            let before_octet = an.as_slice()[probe];
            // second answer under a symbolic push limit: may or may not fit
            let lim: usize = kani::any();
            an.set_push_limit(lim);
            let r = an.push((n.clone(), Class::from_int(cl), Ttl::from_secs(ttl), A::from_octets(addr[3], addr[2], addr[1], addr[0])));
            let fits_limit = before_len + 20 < lim;
            let fits_buf = before_len + 20 <= 64;
            if before_len + 20 != lim {
                assert!(r.is_ok() == (fits_limit && fits_buf));
            }
            let c2 = an.counts();
            assert!(c2.qdcount() == 1 && c2.nscount() == 0 && c2.arcount() == 0);
            if r.is_ok() {
                assert!(c2.ancount() == 2);
                assert!(an.as_slice().len() == before_len + 20);
            } else {
                // a failed push leaves octets and counts exactly as they were
                assert!(c2.ancount() == 1);
                assert!(an.as_slice().len() == before_len);
            }
            // (a successful push legitimately changes ANCOUNT, header octets 6..=7)
            if !(r.is_ok() && (probe == 6 || probe == 7)) {
                assert!(an.as_slice()[probe] == before_octet);
            }
            // stream framing, if any
            if $prefix {
                let s = $dgram(&an);
                assert!((((s[0] as usize) << 8) | s[1] as usize) == s.len() - 2);
            }
            // read everything back: without compression the message must be
            // octet-identical to the RFC 1035 layout of the accepted items
            {
                let msg = an.as_slice();
                let mut exp = [0u8; 64];
                exp[5] = 1;
                exp[7] = if r.is_ok() { 2 } else { 1 };
                let mut o = 12;
                let mut i = 0;
                while i < 6 {
                    exp[o + i] = w[i];
                    exp[o + 14 - 4 + i] = w[i];
                    exp[o + 30 + i] = w[i];
                    i += 1;
                }
                exp[o + 6] = (qt >> 8) as u8;
                exp[o + 7] = qt as u8;
                exp[o + 8] = (qc >> 8) as u8;
                exp[o + 9] = qc as u8;
                o = 22;
                let mut k = 0;
                while k < 2 {
                    exp[o + 6] = 0;
                    exp[o + 7] = 1;
                    exp[o + 8] = (cl >> 8) as u8;
                    exp[o + 9] = cl as u8;
                    exp[o + 10] = (ttl >> 24) as u8;
                    exp[o + 11] = (ttl >> 16) as u8;
                    exp[o + 12] = (ttl >> 8) as u8;
                    exp[o + 13] = ttl as u8;
                    exp[o + 14] = 0;
                    exp[o + 15] = 4;
                    let mut j = 0;
                    while j < 4 {
                        exp[o + 16 + j] = if k == 0 { addr[j] } else { addr[3 - j] };
                        j += 1;
                    }
                    o += 20;
                    k += 1;
                }
                let idx: usize = kani::any();
                kani::assume(idx < msg.len());
                assert!(msg[idx] == exp[idx]);
            }
            // rewind drops the answers and nothing else
            an.rewind();
            assert!(an.counts().ancount() == 0 && an.counts().qdcount() == 1);
            assert!(an.as_slice().len() == 12 + 10);
            if probe < 22 {
                // header counts changed, everything else in header+question kept
                if probe < 6 || probe > 7 {
                    assert!(an.as_slice()[probe] == before_octet);
                }
            }
            if $prefix {
                let s = $dgram(&an);
                assert!((((s[0] as usize) << 8) | s[1] as usize) == s.len() - 2);
            }
            kani::cover!(r.is_ok(), "second push fits");
            kani::cover!(r.is_err() && !fits_limit, "second push hits the push limit");
        }
    };
}

fn no_stream(_b: &domain::base::message_builder::AnswerBuilder<FixedBufM<64>>) -> &[u8] {
    &[]
}
fn stream_slice(b: &domain::base::message_builder::AnswerBuilder<StreamTarget<FixedBufM<66>>>) -> &[u8] {
    b.as_builder().as_target().as_stream_slice()
}

// @tier: thorough
// @timeout: 7200
// @mem: 30
// @funcs: MessageBuilder::{from_target,push,set_push_limit,counts,as_slice}, QuestionBuilder::push, AnswerBuilder::{push,rewind}, Record::compose, HeaderCounts::inc_*
// @bound: question + answer + second answer under any push limit (usize, full width) on FixedBufM<64>; name ab.c with symbolic label octets, symbolic type/class/ttl/address: push succeeds <=> it fits limit and buffer; failed push leaves octets/counts untouched; read-back by independent reader; rewind drops exactly the answers
// @outside: other section/op orders; compressing targets (separate harnesses)
builder_ops!(c02_builder_ops_plain, FixedBufM::<64> { data: [0; 64], len: 0 }, no_stream, false);

// @tier: thorough
// @timeout: 7200
// @mem: 30
// @funcs: StreamTarget::{new,append_slice,truncate,update_shim,as_stream_slice} under MessageBuilder
// @bound: same script on StreamTarget<FixedBufM<66>>: after every operation the two-octet prefix equals the message length
builder_ops!(c02_builder_ops_stream, StreamTarget::new(FixedBufM::<66> { data: [0; 66], len: 0 }).unwrap(), stream_slice, true);

// @funcs: MessageBuilder::{from_target,push,set_push_limit,counts}, QuestionBuilder::push, HeaderCounts::inc_qdcount
// @bound: one question push (name ab.c with symbolic label octets, symbolic type/class) under any push limit (usize, full width) on FixedBufM<48>: the push succeeds when the message stays below the limit and fails when it exceeds it (ending exactly at the limit is left open); after a failed push the length is 12 and QDCOUNT is 0, after a successful one 22 and 1
#[kani::proof]
#[kani::unwind(10)]
fn c02_failed_push_leaves_counts_and_octets() {
    let c: [u8; 3] = kani::any();
    let w = flat_abc(&c);
    let n = Name::from_octets(&w[..]).unwrap();
    let (qt, qc): (u16, u16) = (kani::any(), kani::any());
    let lim: usize = kani::any();
    let mut q = MessageBuilder::from_target(FixedBufM::<48> { data: [0; 48], len: 0 }).unwrap().question();
    q.set_push_limit(lim);
    let r = q.push((n, Rtype::from_int(qt), Class::from_int(qc)));
    // a message that ends exactly at the limit is left unconstrained: the
    // documentation ("fail if the limit is exceeded") and the code (>=) differ there
    if lim != 22 {
        assert!(r.is_ok() == (22 < lim));
    }
    let cnt = q.counts();
    if r.is_ok() {
        assert!(cnt.qdcount() == 1 && q.as_slice().len() == 22);
        assert!(q.as_slice()[5] == 1);
    } else {
        assert!(cnt.qdcount() == 0 && q.as_slice().len() == 12);
        assert!(q.as_slice()[4] == 0 && q.as_slice()[5] == 0);
    }
    assert!(cnt.ancount() == 0 && cnt.nscount() == 0 && cnt.arcount() == 0);
    kani::cover!(r.is_err(), "limit hit");
    kani::cover!(r.is_ok(), "fits");
}

// @funcs: MessageBuilder::additional, AdditionalBuilder::{push,rewind,authority,answer,question,builder}, AuthorityBuilder::{rewind,answer}, AnswerBuilder::{rewind,question}, HeaderCounts::set_*
// @bound: empty question/answer/authority sections, one A record (root owner, symbolic class/TTL/address) pushed into the additional section, then a symbolic choice of going back to the authority / answer / question section or the bare builder: afterwards every section count is 0 and the message is the bare 12-octet header (counts in the octets included)
// @outside: going back with non-empty earlier sections (one push per harness is what fits the quick budget)
#[kani::proof]
#[kani::unwind(14)]
fn c02_going_back_resets_counts() {
    let (cl, ttl): (u16, u32) = (kani::any(), kani::any());
    let addr: [u8; 4] = kani::any();
    let root = Name::from_octets(&[0u8][..]).unwrap();
    let mut ad = MessageBuilder::from_target(FixedBufM::<40> { data: [0; 40], len: 0 }).unwrap().additional();
    ad.push((root, Class::from_int(cl), Ttl::from_secs(ttl), A::from_octets(addr[0], addr[1], addr[2], addr[3]))).unwrap();
    assert!(ad.counts().arcount() == 1 && ad.as_slice().len() == 12 + 15);
    let which: u8 = kani::any();
    kani::assume(which < 4);
    let mb = match which {
        0 => ad.authority().builder(),
        1 => ad.answer().builder(),
        2 => ad.question().builder(),
        _ => ad.builder(),
    };
    // NB: each branch first observes the counts of the section builder it went back to
    let c = mb.counts();
    assert!(c.qdcount() == 0 && c.ancount() == 0 && c.nscount() == 0 && c.arcount() == 0);
    assert!(mb.as_slice().len() == 12);
    let i: usize = kani::any();
    kani::assume(i >= 4 && i < 12);
    assert!(mb.as_slice()[i] == 0);
}

// @funcs: AdditionalBuilder::answer (counts visible on the AnswerBuilder itself)
// @bound: as above, observing the counts directly on the answer builder obtained from the additional builder (before any further rewind)
#[kani::proof]
#[kani::unwind(14)]
fn c02_additional_to_answer_resets_arcount() {
    let (cl, ttl): (u16, u32) = (kani::any(), kani::any());
    let addr: [u8; 4] = kani::any();
    let root = Name::from_octets(&[0u8][..]).unwrap();
    let mut ad = MessageBuilder::from_target(FixedBufM::<40> { data: [0; 40], len: 0 }).unwrap().additional();
    ad.push((root, Class::from_int(cl), Ttl::from_secs(ttl), A::from_octets(addr[0], addr[1], addr[2], addr[3]))).unwrap();
    let an = ad.answer();
    let c = an.counts();
    assert!(c.qdcount() == 0 && c.ancount() == 0 && c.nscount() == 0 && c.arcount() == 0);
    assert!(an.as_slice().len() == 12);
    assert!(an.as_slice()[10] == 0 && an.as_slice()[11] == 0);
}

// @funcs: HeaderCounts::{inc_qdcount,inc_ancount,inc_nscount,inc_arcount,set_*,for_message_slice_mut}, Header::{set_id,set_qr,set_rcode,for_message_slice_mut}
// @bound: any 12 header octets: each inc_* adds exactly one to its own big-endian counter and fails with CountOverflow (leaving all 12 octets untouched) exactly at 65535; header setters touch only their own bits
#[kani::proof]
#[kani::unwind(4)]
fn c02_header_counts_increment_exactly() {
    use domain::base::header::{Header, HeaderCounts};
    use domain::base::iana::Rcode;
    let orig: [u8; 12] = kani::any();
    let mut buf = orig;
    let which: u8 = kani::any();
    kani::assume(which < 4);
    let at = 4 + 2 * which as usize;
    let before = (orig[at] as u16) << 8 | orig[at + 1] as u16;
    let r = {
        let c = HeaderCounts::for_message_slice_mut(&mut buf);
        match which {
            0 => c.inc_qdcount(),
            1 => c.inc_ancount(),
            2 => c.inc_nscount(),
            _ => c.inc_arcount(),
        }
    };
    let after = (buf[at] as u16) << 8 | buf[at + 1] as u16;
    assert!(r.is_ok() == (before != 0xFFFF));
    assert!(after == if r.is_ok() { before + 1 } else { before });
    let i: usize = kani::any();
    kani::assume(i < 12);
    if i != at && i != at + 1 {
        assert!(buf[i] == orig[i]);
    }
    // header setters
    let mut b2 = orig;
    let (id, qr, rc): (u16, bool, u8) = (kani::any(), kani::any(), kani::any());
    kani::assume(rc < 16);
    {
        let h = Header::for_message_slice_mut(&mut b2);
        h.set_id(id);
        h.set_qr(qr);
        h.set_rcode(Rcode::masked_from_int(rc));
    }
    assert!(b2[0] == (id >> 8) as u8 && b2[1] == id as u8);
    assert!(b2[2] == (orig[2] & 0x7F) | if qr { 0x80 } else { 0 });
    assert!(b2[3] == (orig[3] & 0xF0) | rc);
    if i >= 4 {
        assert!(b2[i] == orig[i]);
    }
    kani::cover!(r.is_err(), "counter overflow refused");
}

// @tier: experimental
// @timeout: 3000
// @mem: 30
// @funcs: StreamTarget::{new,append_slice,update_shim,as_stream_slice,as_dgram_slice}  (CBMC 6.11 crashes with status 139 on the 64 KiB arrays)
// @bound: a stream target filled with 65530..=65535 message octets in one append, then up to two single-octet appends: an append succeeds exactly while the message stays within 65535 octets, and after every successful append the two-octet prefix equals the message length
// @outside: truncation at this size; compressing targets at this size
#[kani::proof]
#[kani::unwind(4)]
fn c02_stream_prefix_at_the_64k_boundary() {
    static BIG: [u8; 65535] = [0; 65535];
    let n: usize = kani::any();
    kani::assume(n >= 65530 && n <= 65535);
    let mut t = StreamTarget::new(FixedBufM::<65540> { data: [0; 65540], len: 0 }).unwrap();
    assert!(t.append_slice(&BIG[..n]).is_ok());
    let mut len = n;
    let mut k = 0;
    while k < 2 {
        let r = t.append_slice(&[0xAB]);
        if len + 1 <= 65535 {
            assert!(r.is_ok());
            len += 1;
            let s = t.as_stream_slice();
            assert!(s.len() == len + 2);
            assert!((((s[0] as usize) << 8) | s[1] as usize) == len);
        } else {
            assert!(r.is_err());
            break;
        }
        k += 1;
    }
    kani::cover!(len == 65535, "message of exactly 65535 octets");
}

// @funcs: AdditionalBuilder::opt, OptBuilder::{new,build,set_udp_payload_size,set_version,set_dnssec_ok,set_rcode,push_raw_option}, OptHeader::{compose,set_*}, MessageBuilder::push
// @bound: one OPT record built into an otherwise empty message on FixedBufM<48>: symbolic UDP payload size, EDNS version, DO bit, 12-bit extended rcode, and one raw option with symbolic code and 0..=3 symbolic data octets: the octets equal the RFC 6891 6.1.2 layout (root owner, type 41, class = payload size, TTL = ext-rcode/version/DO/zero, back-patched RDLENGTH, option TLV), the low rcode bits land in the message header, ARCOUNT = 1
// @outside: several options, typed option composers, OPT records after other records
#[kani::proof]
#[kani::unwind(8)]
fn c02_opt_record_layout() {
    use domain::base::iana::{OptRcode, OptionCode};
    let (udp, ver, dok, rc): (u16, u8, bool, u16) = (kani::any(), kani::any(), kani::any(), kani::any());
    kani::assume(rc < 4096);
    let (code, dlen): (u16, usize) = (kani::any(), kani::any());
    kani::assume(dlen <= 3);
    let data: [u8; 3] = kani::any();
    let mut ad = MessageBuilder::from_target(FixedBufM::<48> { data: [0; 48], len: 0 }).unwrap().additional();
    ad.opt(|o| {
        o.set_udp_payload_size(udp);
        o.set_version(ver);
        o.set_dnssec_ok(dok);
        o.set_rcode(OptRcode::masked_from_int(rc));
        o.push_raw_option(OptionCode::from_int(code), dlen as u16, |t| t.append_slice(&data[..dlen]))
    })
    .unwrap();
    assert!(ad.counts().arcount() == 1);
    let m = ad.as_slice();
    assert!(m.len() == 12 + 11 + 4 + dlen);
    assert!(m[11] == 1 && m[10] == 0);
    // header rcode = low four bits of the extended rcode
    assert!(m[3] & 0x0F == (rc & 0x0F) as u8);
    let r = &m[12..];
    assert!(r[0] == 0); // root owner
    assert!(r[1] == 0 && r[2] == 41); // TYPE OPT
    assert!(r[3] == (udp >> 8) as u8 && r[4] == udp as u8); // CLASS = payload size
    assert!(r[5] == (rc >> 4) as u8); // extended rcode (upper eight bits)
    assert!(r[6] == ver);
    assert!(r[7] == if dok { 0x80 } else { 0 } && r[8] == 0); // DO + Z
    assert!((((r[9] as usize) << 8) | r[10] as usize) == 4 + dlen); // RDLENGTH back-patched
    assert!(r[11] == (code >> 8) as u8 && r[12] == code as u8);
    assert!(r[13] == 0 && r[14] as usize == dlen);
    let i: usize = kani::any();
    if i < dlen {
        assert!(r[15 + i] == data[i]);
    }
    kani::cover!(dlen == 3 && dok, "option with data and DO set");
}

// @funcs: AnswerBuilder::push, AuthorityBuilder::push, Record::compose, Mx::compose_rdata / rdlen, compose_len_rdata, HeaderCounts::inc_ancount / inc_nscount
// @bound: one MX record (owner ab.c and exchange ab.c with symbolic label octets; symbolic class, TTL, preference) pushed into the answer section of an otherwise empty message on a non-compressing FixedBufM<48>: octets = owner, type 15, class, TTL, RDLENGTH = 2 + name length, preference, exchange; exactly the section's own count becomes 1
// @outside: other record types in this position (their RDATA layout is C05's subject)
#[kani::proof]
#[kani::unwind(10)]
fn c02_single_record_push_layout_answer() {
    single_record::<false>()
}

// @funcs: AuthorityBuilder::push, Record::compose, HeaderCounts::inc_nscount
// @bound: as above, record pushed into the authority section
#[kani::proof]
#[kani::unwind(10)]
fn c02_single_record_push_layout_authority() {
    single_record::<true>()
}

fn single_record<const AUTH: bool>() {
    use domain::rdata::Mx;
    let c: [u8; 3] = kani::any();
    let w = flat_abc(&c);
    let n = Name::from_octets(&w[..]).unwrap();
    let (cl, ttl, pref): (u16, u32, u16) = (kani::any(), kani::any(), kani::any());
    let authority: bool = AUTH;
    let mb = MessageBuilder::from_target(FixedBufM::<48> { data: [0; 48], len: 0 }).unwrap();
    let rec = (n.clone(), Class::from_int(cl), Ttl::from_secs(ttl), Mx::new(pref, n.clone()));
    let (counts, fin) = if authority {
        let mut b = mb.authority();
        b.push(rec).unwrap();
        (b.counts(), b.finish())
    } else {
        let mut b = mb.answer();
        b.push(rec).unwrap();
        (b.counts(), b.finish())
    };
    assert!(counts.qdcount() == 0 && counts.arcount() == 0);
    assert!(counts.ancount() == if authority { 0 } else { 1 });
    assert!(counts.nscount() == if authority { 1 } else { 0 });
    let m = fin.as_slice();
    assert!(m.len() == 12 + 6 + 10 + 2 + 6);
    let mut exp = [0u8; 36];
    exp[if authority { 9 } else { 7 }] = 1;
    let mut i = 0;
    while i < 6 {
        exp[12 + i] = w[i];
        exp[30 + i] = w[i];
        i += 1;
    }
    exp[18] = 0;
    exp[19] = 15;
    exp[20] = (cl >> 8) as u8;
    exp[21] = cl as u8;
    exp[22] = (ttl >> 24) as u8;
    exp[23] = (ttl >> 16) as u8;
    exp[24] = (ttl >> 8) as u8;
    exp[25] = ttl as u8;
    exp[26] = 0;
    exp[27] = 8;
    exp[28] = (pref >> 8) as u8;
    exp[29] = pref as u8;
    let idx: usize = kani::any();
    kani::assume(idx < 36);
    assert!(m[idx] == exp[idx]);
}
