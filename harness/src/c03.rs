//! C03 — every name value is valid; limits enforced at construction.
// @@prop: C03
// @@fs: core
// @@timeout: 900
use crate::refmodel::*;
use domain::base::name::{Name, NameBuilder, RelativeName, ToLabelIter, ToName, ToRelativeName};

const CAP: usize = 272;
type B = FixedBuf<CAP>;

/// Symbolic pre-state: `closed` octets of closed labels (content arbitrary:
/// no builder operation reads it; only its length matters), optionally
/// followed by an open label (placeholder length octet 0 + 1..=63 content
/// octets); total <= 254.  Every (closed, open) pair of the real state space
/// is covered.
struct Pre {
    b: NameBuilder<B>,
    data: [u8; CAP],
    closed: usize,
    open: usize,
    len: usize,
}

fn pre_state() -> Pre {
    let data: [u8; CAP] = kani::any();
    let closed: usize = kani::any();
    kani::assume(closed <= 254);
    let open: usize = kani::any();
    kani::assume(open <= 63);
    let len = if open > 0 { closed + 1 + open } else { closed };
    kani::assume(len <= 254);
    if open > 0 {
        kani::assume(data[closed] == 0);
    }
    let buf = FixedBuf { data, len };
    let b = NameBuilder::verif_from_parts(buf, if open > 0 { Some(closed) } else { None });
    Pre { b, data, closed, open, len }
}

/// Post-state invariant relative to the pre-state: total <= 254, everything
/// from the old closed prefix's end onwards is a sequence of valid closed
/// labels followed by at most one open label of 1..=63 octets.  Together
/// with `prefix_kept` (prefix octets untouched) this gives: valid prefix in
/// => valid name out.
fn inv_from(b: &NameBuilder<B>, closed: usize) -> bool {
    let len = b.len();
    let s = b.as_slice();
    if len > 254 || len < closed {
        return false;
    }
    match b.verif_head() {
        None => valid_relative_k(&s[closed..], 5),
        Some(h) => {
            h >= closed && h < len && len - h - 1 >= 1 && len - h - 1 <= 63
                && valid_relative_k(&s[closed..h], 5)
        }
    }
}

/// The closed prefix is never rewritten (checked at a symbolic index, i.e.
/// for every index).
fn prefix_kept(pre_data: &[u8; CAP], closed: usize, b: &NameBuilder<B>) -> bool {
    let i: usize = kani::any();
    if i < closed && i < b.len() {
        b.as_slice()[i] == pre_data[i]
    } else {
        true
    }
}

// ---- D8: the known finding (see known_findings.json) ----------------------
// Starting a new label forgets the length octet in the 254 check.
fn d8_push(p: &Pre) -> bool {
    p.open == 0 && p.closed == 253
}
fn d8_new_label(closed: usize, n: usize) -> bool {
    n >= 1 && n <= 63 && closed + n == 254
}

fn op_push(exclude_d8: bool, only_d8: bool) {
    let mut p = pre_state();
    if exclude_d8 {
        kani::assume(!d8_push(&p));
    }
    if only_d8 {
        kani::assume(d8_push(&p));
    }
    let ch: u8 = kani::any();
    let r = p.b.push(ch);
    assert!(inv_from(&p.b, p.closed));
    assert!(prefix_kept(&p.data, p.closed, &p.b));
    if r.is_ok() {
        assert!(p.b.in_label());
        assert!(p.b.as_slice()[p.b.len() - 1] == ch);
        assert!(p.b.len() == p.len + if p.open > 0 { 1 } else { 2 });
    } else {
        assert!(p.b.len() == p.len);
    }
    kani::cover!(r.is_ok() && p.open == 0, "push opens a label");
    kani::cover!(r.is_err() && p.open == 63, "label limit hit");
    kani::cover!(r.is_err() && p.len == 254, "name limit hit");
}

// @funcs: NameBuilder::push (Builder = FixedBuf<336>), via hook verif_from_parts
// @bound: one push from every pre-state (closed prefix of any length 0..=254, open label of 0..=63 octets, arbitrary content); D8 input class (closed==253, no open label) excluded here and asserted in the witness harness
// @assume: pre-state satisfies the builder invariant (closed prefix of any length 0..=254 with arbitrary content, open label 1..=63 with placeholder 0, total <= 254)
// @assume: not (no open label and len == 253)  [known finding D8]
// @outside: validity of the closed prefix itself is carried by the argument 'prefix untouched + suffix valid + total <= 254 => whole valid'
#[kani::proof]
#[kani::unwind(12)]
fn c03_builder_push() {
    op_push(true, false)
}

// @funcs: NameBuilder::push
// @bound: D8 witness: push from a closed 253-octet name
// @expect: fail
// @finding: D8
#[kani::proof]
#[kani::unwind(12)]
fn c03_builder_push_d8_witness() {
    op_push(false, true)
}

fn op_append_slice(exclude_d8: bool, only_d8: bool, label: bool) {
    let mut p = pre_state();
    let pool: [u8; 5] = kani::any();
    let n: usize = kani::any();
    kani::assume(n <= 5);
    let newlabel = label || p.open == 0;
    if exclude_d8 {
        kani::assume(!(newlabel && d8_new_label(if label { p.len } else { p.closed }, n)));
    }
    if only_d8 {
        kani::assume(newlabel && d8_new_label(if label { p.len } else { p.closed }, n));
    }
    let r = if label { p.b.append_label(&pool[..n]) } else { p.b.append_slice(&pool[..n]) };
    assert!(inv_from(&p.b, p.closed));
    assert!(prefix_kept(&p.data, p.closed, &p.b));
    if r.is_ok() {
        let i: usize = kani::any();
        if i < n {
            assert!(p.b.as_slice()[p.b.len() - n + i] == pool[i]);
        }
        if label {
            assert!(!p.b.in_label());
        }
    } else {
        assert!(p.b.len() == p.len);
        assert!(p.b.in_label() == (p.open > 0));
    }
    kani::cover!(r.is_ok() && n == 5, "appended five octets");
    kani::cover!(r.is_err(), "rejected");
}

// @funcs: NameBuilder::append_slice
// @bound: one append_slice of 0..=5 symbolic octets from every pre-state; D8 class (new label, closed+n == 254) excluded
// @assume: pre-state invariant; not D8 class
// @outside: slices longer than 5 octets except via c03_builder_long_slices
#[kani::proof]
#[kani::unwind(12)]
fn c03_builder_append_slice() {
    op_append_slice(true, false, false)
}

// @funcs: NameBuilder::append_slice
// @bound: D8 witness: append_slice starting a new label with closed+n == 254
// @expect: fail
// @finding: D8
#[kani::proof]
#[kani::unwind(12)]
fn c03_builder_append_slice_d8_witness() {
    op_append_slice(false, true, false)
}

// @funcs: NameBuilder::append_label, end_label, append_slice
// @bound: one append_label of 0..=5 symbolic octets from every pre-state; D8 class excluded
// @assume: pre-state invariant; not D8 class
#[kani::proof]
#[kani::unwind(12)]
fn c03_builder_append_label() {
    op_append_slice(true, false, true)
}

// @funcs: NameBuilder::append_label
// @bound: D8 witness: append_label with len+n == 254
// @expect: fail
// @finding: D8
#[kani::proof]
#[kani::unwind(12)]
fn c03_builder_append_label_d8_witness() {
    op_append_slice(false, true, true)
}

// @funcs: NameBuilder::end_label, finish, into_name
// @bound: end_label / finish / into_name from every pre-state
// @assume: pre-state invariant
#[kani::proof]
#[kani::unwind(12)]
fn c03_builder_finish_into_name() {
    let mut p = pre_state();
    let which: u8 = kani::any();
    kani::assume(which < 3);
    if which == 0 {
        p.b.end_label();
        assert!(inv_from(&p.b, p.closed));
        assert!(!p.b.in_label());
        assert!(p.b.len() == p.len);
    } else if which == 1 {
        let r = p.b.finish();
        assert!(valid_relative_k(&r.as_slice()[p.closed..], 5));
        assert!(r.as_slice().len() == p.len);
    } else {
        match p.b.into_name() {
            Ok(n) => {
                assert!(valid_absolute_k(&n.as_slice()[p.closed..], 5));
                assert!(n.as_slice().len() == p.len + 1);
            }
            Err(_) => panic!("into_name failed although capacity suffices"),
        }
    }
    kani::cover!(which == 2 && p.len == 254, "255-octet absolute name built");
}

// @funcs: NameBuilder::append_name<RelativeName<&[u8]>>
// @bound: append_name of any relative name of <= 4 octets from every pre-state
// @assume: pre-state invariant
#[kani::proof]
#[kani::unwind(8)]
fn c03_builder_append_name() {
    op_append_name::<4>()
}

// @tier: thorough
// @timeout: 3000
// @funcs: NameBuilder::append_name<RelativeName<&[u8]>>
// @bound: append_name of any relative name of <= 6 octets from every pre-state
// @assume: pre-state invariant
#[kani::proof]
#[kani::unwind(10)]
fn c03_builder_append_name_6() {
    op_append_name::<6>()
}

fn op_append_name<const M: usize>() {
    let mut p = pre_state();
    let arr: [u8; M] = kani::any();
    let m: usize = kani::any();
    kani::assume(m <= M);
    let rel = match RelativeName::from_slice(&arr[..m]) {
        Ok(r) => r,
        Err(_) => return,
    };
    let r = p.b.append_name(&rel);
    assert!(inv_from(&p.b, p.closed));
    assert!(prefix_kept(&p.data, p.closed, &p.b));
    if r.is_ok() {
        assert!(!p.b.in_label());
        assert!(p.b.len() == p.len + m);
    } else {
        assert!(p.b.len() == p.len);
    }
    kani::cover!(r.is_ok() && p.open > 0 && m > 0, "appended to a builder with an open label");
    kani::cover!(r.is_err(), "rejected");
}

// @funcs: NameBuilder::append_origin<Name<&[u8]>>
// @bound: append_origin of any absolute name of <= 4 octets from every pre-state
// @assume: pre-state invariant
#[kani::proof]
#[kani::unwind(8)]
fn c03_builder_append_origin() {
    op_append_origin::<4>()
}

// @tier: thorough
// @timeout: 3000
// @funcs: NameBuilder::append_origin<Name<&[u8]>>
// @bound: append_origin of any absolute name of <= 6 octets from every pre-state
// @assume: pre-state invariant
#[kani::proof]
#[kani::unwind(10)]
fn c03_builder_append_origin_6() {
    op_append_origin::<6>()
}

fn op_append_origin<const M: usize>() {
    let p = pre_state();
    let arr: [u8; M] = kani::any();
    let m: usize = kani::any();
    kani::assume(m <= M);
    let abs = match Name::from_slice(&arr[..m]) {
        Ok(r) => r,
        Err(_) => return,
    };
    match p.b.append_origin(&abs) {
        Ok(n) => {
            assert!(valid_absolute_k(&n.as_slice()[p.closed..], 5));
            assert!(n.as_slice().len() == p.len + m);
            kani::cover!(n.as_slice().len() == 255, "maximal name");
        }
        Err(_) => {
            assert!(p.len + m > 255);
        }
    }
}

// @funcs: NameBuilder::append_dec_u8_label, append_hex_digit_label
// @bound: one call with any u8 from every pre-state; D8 class (len == 253 when the new label starts) excluded
// @assume: pre-state invariant; not D8 class
#[kani::proof]
#[kani::unwind(12)]
fn c03_builder_dec_hex_labels() {
    let mut p = pre_state();
    kani::assume(p.len != 253);
    let v: u8 = kani::any();
    let hex: bool = kani::any();
    let r = if hex { p.b.append_hex_digit_label(v) } else { p.b.append_dec_u8_label(v) };
    assert!(inv_from(&p.b, p.closed));
    assert!(prefix_kept(&p.data, p.closed, &p.b));
    if r.is_ok() {
        assert!(!p.b.in_label());
    }
    kani::cover!(r.is_ok() && !hex && v >= 100, "three-digit label");
    kani::cover!(r.is_err(), "rejected");
}

// ------------------------------------------------ presentation round trip
use core::fmt::Write as _;
use domain::base::name::Label;

fn label_text_roundtrip<const N: usize, const S: usize>() {
    let buf: [u8; N] = kani::any();
    let n: usize = kani::any();
    kani::assume(n >= 1 && n <= N);
    let label = Label::from_slice(&buf[..n]).unwrap();
    let mut sink = CharSink::<S>::new();
    write!(sink, "{}", label).unwrap();
    assert!(!sink.overflow);
    let mut nb = NameBuilder::<FixedBuf<16>>::new();
    let r = nb.append_chars(sink.buf[..sink.len].iter().copied());
    assert!(r.is_ok());
    let rel = nb.finish();
    let s = rel.as_slice();
    // the text of one label reads back as exactly that one label
    assert!(s.len() == n + 1);
    assert!(s[0] as usize == n);
    let mut i = 0;
    while i < n {
        assert!(s[1 + i] == buf[i]);
        i += 1;
    }
    kani::cover!(buf[0] == b'.', "label containing a dot");
    kani::cover!(buf[0] == 0xFF, "label containing a high octet");
}

// @funcs: <Label as Display>::fmt, NameBuilder::append_chars, push_symbol, Symbols::with, Symbol::from_chars, NameBuilder::finish
// @bound: every label of exactly 1 fully symbolic octet: Display text fed to the name parser gives back the same single label
// @outside: labels longer than 2 octets (escaping is per octet with no context other than the preceding backslash)
#[kani::proof]
#[kani::unwind(8)]
fn c03_label_text_roundtrip_1() {
    label_text_roundtrip::<1, 6>()
}

// @tier: thorough
// @timeout: 3000
// @funcs: <Label as Display>::fmt, NameBuilder::append_chars, Symbol::from_chars
// @bound: every label of 1..=2 fully symbolic octets
#[kani::proof]
#[kani::unwind(12)]
fn c03_label_text_roundtrip_2() {
    label_text_roundtrip::<2, 10>()
}


// ------------------------------------------------ validating constructors
fn raw<const N: usize>() -> ([u8; N], usize) {
    let d: [u8; N] = kani::any();
    let n: usize = kani::any();
    kani::assume(n <= N);
    (d, n)
}

// @funcs: Name::from_slice, Name::check_slice, Name::from_octets
// @bound: every octet string of 0..=6 symbolic octets: accepted as an absolute name <=> it is a sequence of labels (1..=63) ending in exactly one root label (independent validator)
// @outside: the 255-octet total limit (needs names longer than the bound; the builder-side limit is decided by the induction harnesses, the skip-side by C01)
#[kani::proof]
#[kani::unwind(9)]
fn c03_name_from_slice_accepts_exactly_valid() {
    let (d, n) = raw::<6>();
    let r = Name::from_slice(&d[..n]);
    assert!(r.is_ok() == valid_absolute_k(&d[..n], 6));
    if let Ok(nm) = r {
        assert!(nm.as_slice().len() == n);
        assert!(nm.is_root() == (n == 1));
    }
    kani::cover!(r.is_ok() && n == 6, "six-octet name accepted");
}

// @funcs: RelativeName::from_slice, RelativeName::check_slice
// @bound: every octet string of 0..=6 symbolic octets: accepted as a relative name <=> it is a sequence of labels 1..=63 without a root label
#[kani::proof]
#[kani::unwind(9)]
fn c03_relative_from_slice_accepts_exactly_valid() {
    let (d, n) = raw::<6>();
    let r = RelativeName::from_slice(&d[..n]);
    assert!(r.is_ok() == valid_relative_k(&d[..n], 6));
    kani::cover!(r.is_ok() && n == 6, "six-octet relative name accepted");
    kani::cover!(r.is_ok() && n == 0, "empty relative name accepted");
}

// @funcs: Label::split_from, Label::from_slice
// @bound: every octet string of 0..=5 symbolic octets: split_from returns a label of exactly the announced length (<= 63) and the rest, or an error for pointers / reserved types / short input
#[kani::proof]
#[kani::unwind(8)]
fn c03_label_split_from() {
    let (d, n) = raw::<5>();
    match Label::split_from(&d[..n]) {
        Ok((l, rest)) => {
            assert!(n >= 1 && d[0] <= 63);
            assert!(l.len() == d[0] as usize);
            assert!(1 + l.len() + rest.len() == n);
            let i: usize = kani::any();
            if i < l.len() {
                assert!(l.as_slice()[i] == d[1 + i]);
            }
        }
        Err(_) => {
            assert!(n == 0 || d[0] > 63 || n < 1 + d[0] as usize);
        }
    }
    let (e, m) = raw::<5>();
    assert!(Label::from_slice(&e[..m]).is_ok());
}

// --------------------------------------------------------------- slicing
use crate::c05::FlatName;

// @funcs: Name::{is_label_start,split,range_from,slice_from,truncate,split_first,parent,label_count,first,into_relative}, RelativeName::chain
// @bound: a flat name with label structure (2,1) and symbolic content, every index 0..=7: is_label_start is true exactly at label boundaries; splitting at any boundary yields a valid relative and a valid absolute part that re-chain to the original octets; parent/split_first/into_relative stay valid
// @outside: names of more than two labels; splitting at non-boundaries (documented to panic)
#[kani::proof]
#[kani::unwind(10)]
fn c03_name_slicing_keeps_names_valid() {
    let f = FlatName::any::<2, 1>();
    let n = f.name();
    let idx: usize = kani::any();
    kani::assume(idx <= 7);
    let boundary = idx == 0 || idx == 3 || idx == 5;
    assert!(n.is_label_start(idx) == boundary);
    assert!(n.label_count() == 3);
    assert!(n.first().as_slice().len() == 2);
    if boundary {
        let (left, right) = n.split(idx);
        assert!(valid_relative_k(left.as_slice(), 4) && valid_absolute_k(right.as_slice(), 4));
        assert!(left.as_slice().len() == idx && right.as_slice().len() == f.n - idx);
        let i: usize = kani::any();
        if i < idx {
            assert!(left.as_slice()[i] == f.w[i]);
        } else if i < f.n {
            assert!(right.as_slice()[i - idx] == f.w[i]);
        }
        assert!(n.range_from(idx).as_slice().len() == f.n - idx);
        assert!(valid_absolute_k(n.slice_from(idx).as_slice(), 4));
        let t = n.clone().truncate(idx);
        assert!(valid_relative_k(t.as_slice(), 4) && t.as_slice().len() == idx);
    }
    let (first, rest) = n.split_first().unwrap();
    assert!(first.as_slice().len() == 2 && valid_absolute_k(rest.as_slice(), 4) && rest.as_slice().len() == f.n - 3);
    let p = n.parent().unwrap();
    assert!(p.as_slice().len() == f.n - 3 && valid_absolute_k(p.as_slice(), 4));
    let rel = n.clone().into_relative();
    assert!(valid_relative_k(rel.as_slice(), 4) && rel.as_slice().len() == f.n - 1);
    kani::cover!(boundary && idx == 3, "split in the middle");
}

// @funcs: RelativeName::{strip_suffix,ends_with}, RelativeName::from_octets
// @bound: a relative name made of one 3-octet label (symbolic content, so the content may imitate the wire form of another label) and a one-label base of 1 symbolic octet, both stored flat in owned buffers: strip_suffix only succeeds for a real label-wise suffix and always leaves a valid relative name
// @outside: longer names; other octets types
#[kani::proof]
#[kani::unwind(10)]
fn c03_strip_suffix_respects_label_boundaries() {
    let c: [u8; 4] = kani::any();
    let mut rel = RelativeName::from_octets(FixedBuf::<8> { data: [3, c[0], c[1], c[2], 0, 0, 0, 0], len: 4 }).unwrap();
    let base = RelativeName::from_octets(FixedBuf::<8> { data: [1, c[3], 0, 0, 0, 0, 0, 0], len: 2 }).unwrap();
    let r = rel.strip_suffix(&base);
    // a one-octet label can never be a suffix of a single three-octet label
    assert!(r.is_err());
    assert!(valid_relative_k(rel.as_slice(), 3));
    assert!(rel.as_slice().len() == 4);
    // and a real suffix is stripped at the label boundary
    let mut two = RelativeName::from_octets(FixedBuf::<8> { data: [1, c[0], 1, c[1], 0, 0, 0, 0], len: 4 }).unwrap();
    let base2 = RelativeName::from_octets(FixedBuf::<8> { data: [1, c[3], 0, 0, 0, 0, 0, 0], len: 2 }).unwrap();
    let r2 = two.strip_suffix(&base2);
    assert!(r2.is_ok() == (lc(c[1]) == lc(c[3])));
    assert!(valid_relative_k(two.as_slice(), 3));
    assert!(two.as_slice().len() == if r2.is_ok() { 2 } else { 4 });
    kani::cover!(r2.is_ok(), "real suffix stripped");
}

// @tier: experimental
// @funcs: RelativeName::chain, Chain::new, RelativeName::from_slice, Name::from_slice, ToLabelIter::compose_len
// @bound: a relative name of three labels with symbolic lengths 1..=63 (arbitrary content) chained with an absolute name of one label of symbolic length 1..=63: the chain is refused exactly when the combined name would exceed 255 octets, and an accepted chain reports the combined length
// @outside: chains of chains; UncertainName chains
#[kani::proof]
#[kani::unwind(7)]
fn c03_chain_enforces_the_255_limit() {
    let mut rbuf: [u8; 192] = kani::any();
    let mut pos = 0usize;
    let mut i = 0;
    while i < 3 {
        let l: usize = kani::any();
        kani::assume(l >= 1 && l <= 63);
        rbuf[pos] = l as u8;
        pos += l + 1;
        i += 1;
    }
    let rel = RelativeName::from_slice(&rbuf[..pos]).unwrap();
    let mut abuf: [u8; 65] = kani::any();
    let al: usize = kani::any();
    kani::assume(al >= 1 && al <= 63);
    abuf[0] = al as u8;
    abuf[al + 1] = 0;
    let abs = Name::from_slice(&abuf[..al + 2]).unwrap();
    let total = pos + al + 2;
    match rel.chain(abs) {
        Ok(c) => {
            assert!(total <= 255);
            assert!(c.compose_len() as usize == total);
        }
        Err(_) => assert!(total > 255),
    }
    kani::cover!(total == 255, "maximal chained name");
    kani::cover!(total == 256, "one octet too long");
}

// @funcs: UncertainName::from_octets, UncertainName::is_slice_absolute, Label::split_from
// @bound: an octet string made of four labels with symbolic lengths 1..=63 (arbitrary content), optionally followed by a root label: accepted as absolute <=> total <= 255, accepted as relative <=> total <= 254
// @outside: other label counts near the limits
#[kani::proof]
#[kani::unwind(7)]
fn c03_uncertain_name_length_limits() {
    use domain::base::name::UncertainName;
    let mut buf: [u8; 262] = kani::any();
    let mut pos = 0usize;
    let mut i = 0;
    while i < 4 {
        let l: usize = kani::any();
        kani::assume(l >= 1 && l <= 63);
        buf[pos] = l as u8;
        pos += l + 1;
        i += 1;
    }
    let absolute: bool = kani::any();
    if absolute {
        buf[pos] = 0;
        pos += 1;
    }
    match UncertainName::from_octets(&buf[..pos]) {
        Ok(n) => {
            assert!(n.is_absolute() == absolute);
            assert!(pos <= if absolute { 255 } else { 254 });
        }
        Err(_) => assert!(pos > if absolute { 255 } else { 254 }),
    }
    kani::cover!(!absolute && pos == 254, "maximal relative name");
    kani::cover!(absolute && pos == 255, "maximal absolute name");
}

// @funcs: Name::from_slice / check_slice, RelativeName::from_slice / check_slice (length limits)
// @bound: four labels with symbolic lengths 1..=63 (arbitrary content), with or without a closing root label: Name::from_slice accepts exactly the root-terminated strings of at most 255 octets, RelativeName::from_slice exactly the unterminated ones of at most 254 octets
// @outside: other label counts near the limits
#[kani::proof]
#[kani::unwind(7)]
fn c03_from_slice_length_limits() {
    let mut buf: [u8; 262] = kani::any();
    let mut pos = 0usize;
    let mut i = 0;
    while i < 4 {
        let l: usize = kani::any();
        kani::assume(l >= 1 && l <= 63);
        buf[pos] = l as u8;
        pos += l + 1;
        i += 1;
    }
    let rooted: bool = kani::any();
    if rooted {
        buf[pos] = 0;
        pos += 1;
    }
    let abs = Name::from_slice(&buf[..pos]);
    let rel = RelativeName::from_slice(&buf[..pos]);
    assert!(abs.is_ok() == (rooted && pos <= 255));
    assert!(rel.is_ok() == (!rooted && pos <= 254));
    kani::cover!(abs.is_ok() && pos == 255, "maximal absolute name");
    kani::cover!(rel.is_ok() && pos == 254, "maximal relative name");
}

// @funcs: Label::from_slice, CharStr::from_slice (length limits of the leaf types)
// @bound: octet strings of every length 0..=70 (labels) and 0..=300 (character strings), arbitrary content: a label is accepted exactly up to 63 octets, a character string exactly up to 255
#[kani::proof]
#[kani::unwind(4)]
fn c03_label_and_charstr_length_limits() {
    use domain::base::charstr::CharStr;
    let lbuf: [u8; 70] = kani::any();
    let n: usize = kani::any();
    kani::assume(n <= 70);
    let l = Label::from_slice(&lbuf[..n]);
    assert!(l.is_ok() == (n <= 63));
    if let Ok(l) = l {
        assert!(l.len() == n && l.compose_len() as usize == n + 1);
        assert!(l.is_root() == (n == 0));
    }
    let cbuf: [u8; 300] = kani::any();
    let m: usize = kani::any();
    kani::assume(m <= 300);
    let c = CharStr::from_slice(&cbuf[..m]);
    assert!(c.is_ok() == (m <= 255));
    if let Ok(c) = c {
        assert!(c.len() == m && c.compose_len() as usize == m + 1);
    }
    kani::cover!(n == 63 && m == 255, "maximal label and character string");
}
