//! C04 — equality / order / hash coherence; canonical order.
// @@prop: C04
// @@fs: core
// @@timeout: 900
use crate::refmodel::*;
use core::cmp::Ordering;
use core::hash::Hash;
use domain::base::name::Label;

fn any_label<const N: usize>(buf: &[u8; N]) -> &Label {
    let n: usize = kani::any();
    kani::assume(n <= N);
    Label::from_slice(&buf[..n]).unwrap()
}

fn label_laws<const N: usize>() {
    let (ba, bb, bc): ([u8; N], [u8; N], [u8; N]) = (kani::any(), kani::any(), kani::any());
    let a = any_label(&ba);
    let b = any_label(&bb);
    let c = any_label(&bc);
    let ab = a.cmp(b);
    // order = lexicographic order of lower-cased octets (RFC 4034 6.1)
    assert!(ab == lex_cmp(a.as_slice(), b.as_slice(), true));
    // consistent with equality, antisymmetric, transitive
    assert!((a == b) == (ab == Ordering::Equal));
    assert!(b.cmp(a) == ab.reverse());
    assert!(a.partial_cmp(b) == Some(ab));
    let bc_ = b.cmp(c);
    if ab != Ordering::Greater && bc_ != Ordering::Greater {
        assert!(a.cmp(c) != Ordering::Greater);
        if ab == Ordering::Less || bc_ == Ordering::Less {
            assert!(a.cmp(c) == Ordering::Less);
        }
    }
    // equal => identical hash input stream
    if a == b {
        let mut ha = RecHasher::<8>::new();
        let mut hb = RecHasher::<8>::new();
        a.hash(&mut ha);
        b.hash(&mut hb);
        assert!(ha.same(&hb));
    }
    kani::cover!(a == b && a.as_slice() != b.as_slice() && a.len() == N, "case-variant equal labels of full length");
    kani::cover!(ab == Ordering::Less && a.len() > b.len(), "longer label sorts first");
}

// @funcs: Label::from_slice, Label::cmp, Label::eq, Label::partial_cmp, Label::hash
// @bound: all triples of labels of 0..=3 fully symbolic octets
// @outside: labels longer than the bound (comparison is an octet-wise loop with no other state)
#[kani::proof]
#[kani::unwind(6)]
fn c04_label_laws_3() {
    label_laws::<3>()
}

// @tier: thorough
// @timeout: 3000
// @funcs: Label::from_slice, Label::cmp, Label::eq, Label::partial_cmp, Label::hash
// @bound: all triples of labels of 0..=5 fully symbolic octets
#[kani::proof]
#[kani::unwind(8)]
fn c04_label_laws_5() {
    label_laws::<5>()
}

// case-insensitivity is exactly A-Z/a-z
// @funcs: Label::eq, Label::cmp, Label::hash
// @bound: all pairs of one-octet labels (all 65536 pairs): equal <=> same octet or same ASCII letter
#[kani::proof]
#[kani::unwind(4)]
fn c04_label_case_exact() {
    let x: u8 = kani::any();
    let y: u8 = kani::any();
    let (bx, by) = ([x], [y]);
    let a = Label::from_slice(&bx).unwrap();
    let b = Label::from_slice(&by).unwrap();
    let is_letter = |c: u8| (c >= b'A' && c <= b'Z') || (c >= b'a' && c <= b'z');
    let want = x == y || (is_letter(x) && is_letter(y) && (x | 0x20) == (y | 0x20));
    assert!((a == b) == want);
    assert!((a.cmp(b) == Ordering::Equal) == want);
    let mut ha = RecHasher::<4>::new();
    let mut hb = RecHasher::<4>::new();
    a.hash(&mut ha);
    b.hash(&mut hb);
    assert!(ha.same(&hb) == want);
    kani::cover!(x == 0x40 && y == 0x60, "boundary 0x40/0x60 reachable");
}

fn wire_of<const M: usize>(l: &Label, lower: bool) -> ([u8; M], usize) {
    let mut w = [0u8; M];
    w[0] = l.len() as u8;
    let s = l.as_slice();
    let mut i = 0;
    while i < s.len() {
        w[i + 1] = if lower { lc(s[i]) } else { s[i] };
        i += 1;
    }
    (w, s.len() + 1)
}

// @funcs: Label::composed_cmp, Label::lowercase_composed_cmp
// @bound: all pairs of labels of 0..=3 octets: composed orders = bytewise order of the (lower-cased) wire forms
#[kani::proof]
#[kani::unwind(6)]
fn c04_label_composed_cmp() {
    let (ba, bb): ([u8; 3], [u8; 3]) = (kani::any(), kani::any());
    let a = any_label(&ba);
    let b = any_label(&bb);
    let (wa, na) = wire_of::<4>(a, false);
    let (wb, nb) = wire_of::<4>(b, false);
    assert!(a.composed_cmp(b) == lex_cmp(&wa[..na], &wb[..nb], false));
    let (la, _) = wire_of::<4>(a, true);
    let (lb, _) = wire_of::<4>(b, true);
    assert!(a.lowercase_composed_cmp(b) == lex_cmp(&la[..na], &lb[..nb], false));
    kani::cover!(a.composed_cmp(b) != a.cmp(b), "composed order differs from canonical order");
}

// ------------------------------------------------------------ CharStr etc.
use domain::base::charstr::CharStr;
use domain::base::cmp::CanonicalOrd;
use domain::base::{Serial, Ttl};

fn any_charstr<const N: usize>(buf: &[u8; N]) -> &CharStr<[u8]> {
    let n: usize = kani::any();
    kani::assume(n <= N);
    CharStr::from_slice(&buf[..n]).unwrap()
}

// @funcs: CharStr::{from_slice, eq, cmp, partial_cmp, hash, canonical_cmp}
// @bound: all triples of character strings of 0..=3 symbolic octets: cmp = case-insensitive lexicographic order, consistent with ==, antisymmetric, transitive; equal => same hash stream; canonical_cmp = bytewise order of the wire form (length octet + octets, case preserved)
#[kani::proof]
#[kani::unwind(6)]
fn c04_charstr_laws_3() {
    let (ba, bb, bc): ([u8; 3], [u8; 3], [u8; 3]) = (kani::any(), kani::any(), kani::any());
    let a = any_charstr(&ba);
    let b = any_charstr(&bb);
    let c = any_charstr(&bc);
    let ab = a.cmp(b);
    assert!(ab == lex_cmp(a.as_slice(), b.as_slice(), true));
    assert!((a == b) == (ab == Ordering::Equal));
    assert!(b.cmp(a) == ab.reverse());
    assert!(a.partial_cmp(b) == Some(ab));
    let bc_ = b.cmp(c);
    if ab != Ordering::Greater && bc_ != Ordering::Greater {
        assert!(a.cmp(c) != Ordering::Greater);
    }
    if a == b {
        let mut ha = RecHasher::<8>::new();
        let mut hb = RecHasher::<8>::new();
        a.hash(&mut ha);
        b.hash(&mut hb);
        assert!(ha.same(&hb));
    }
    // canonical order = order of the wire forms
    let mut wa = [0u8; 4];
    let mut wb = [0u8; 4];
    wa[0] = a.len() as u8;
    wb[0] = b.len() as u8;
    let mut i = 0;
    while i < a.len() {
        wa[i + 1] = a.as_slice()[i];
        i += 1;
    }
    let mut i = 0;
    while i < b.len() {
        wb[i + 1] = b.as_slice()[i];
        i += 1;
    }
    assert!(a.canonical_cmp(b) == lex_cmp(&wa[..a.len() + 1], &wb[..b.len() + 1], false));
    kani::cover!(a == b && a.canonical_cmp(b) != Ordering::Equal, "equal but canonically distinct (case)");
}

// @funcs: Serial::canonical_cmp, Ttl::canonical_cmp/cmp, Serial::compose
// @bound: all pairs of 32-bit values: canonical order = order of the 4-octet big-endian wire forms (a total order, unlike RFC 1982 comparison)
#[kani::proof]
#[kani::unwind(6)]
fn c04_serial_ttl_canonical_is_wire_order() {
    let x: u32 = kani::any();
    let y: u32 = kani::any();
    let wx = x.to_be_bytes();
    let wy = y.to_be_bytes();
    let want = lex_cmp(&wx, &wy, false);
    assert!(Serial(x).canonical_cmp(&Serial(y)) == want);
    let mut bx = FixedBuf::<4> { data: [0; 4], len: 0 };
    Serial(x).compose(&mut bx).unwrap();
    assert!(bx.data == wx);
    let (tx, ty) = (Ttl::from_secs(x), Ttl::from_secs(y));
    assert!(tx.cmp(&ty) == want);
    assert!((tx == ty) == (x == y));
    kani::cover!(want == Ordering::Less && y.wrapping_sub(x) > 0x8000_0000, "wire order differs from serial arithmetic");
}

// ------------------------------------------------------------------ names
use crate::c05::FlatName;
use domain::base::name::{Name, RelativeName, ToLabelIter, ToName, ToRelativeName};

/// RFC 4034 6.1: compare label sequences from the rightmost (root-adjacent)
/// label leftwards, each label as a lower-cased octet string, a missing
/// label sorting first.  Works on flat wire names of at most 3 labels.
fn ref_name_order(a: &[u8], b: &[u8]) -> Ordering {
    let mut sa = [0usize; 4];
    let mut sb = [0usize; 4];
    let mut na = 0;
    let mut nb = 0;
    let mut p = 0;
    while na < 3 && a[p] != 0 {
        sa[na] = p;
        na += 1;
        p += a[p] as usize + 1;
    }
    let mut p = 0;
    while nb < 3 && b[p] != 0 {
        sb[nb] = p;
        nb += 1;
        p += b[p] as usize + 1;
    }
    let mut k = 0;
    while k < 3 {
        if k >= na && k >= nb {
            return Ordering::Equal;
        }
        if k >= na {
            return Ordering::Less;
        }
        if k >= nb {
            return Ordering::Greater;
        }
        let (pa, pb) = (sa[na - 1 - k], sb[nb - 1 - k]);
        let la = &a[pa + 1..pa + 1 + a[pa] as usize];
        let lb = &b[pb + 1..pb + 1 + b[pb] as usize];
        match lex_cmp(la, lb, true) {
            Ordering::Equal => {}
            o => return o,
        }
        k += 1;
    }
    Ordering::Equal
}

fn name_laws<const A1: usize, const A2: usize, const B1: usize, const B2: usize>() {
    let (fa, fb) = (FlatName::any::<A1, A2>(), FlatName::any::<B1, B2>());
    let (a, b) = (fa.name(), fb.name());
    let want = ref_name_order(&fa.w[..fa.n], &fb.w[..fb.n]);
    assert!(a.name_cmp(&b) == want);
    assert!(b.name_cmp(&a) == want.reverse());
    assert!(a.cmp(&b) == want);
    assert!(a.name_eq(&b) == (want == Ordering::Equal));
    assert!((a == b) == (want == Ordering::Equal));
    if a == b {
        let mut ha = RecHasher::<16>::new();
        let mut hb = RecHasher::<16>::new();
        a.hash(&mut ha);
        b.hash(&mut hb);
        assert!(ha.same(&hb));
    }
    // composed orders = bytewise order of the (lower-cased) wire forms
    assert!(a.composed_cmp(&b) == lex_cmp(&fa.w[..fa.n], &fb.w[..fb.n], false));
    let (la, lb) = (fa.lower(), fb.lower());
    assert!(a.lowercase_composed_cmp(&b) == lex_cmp(&la[..fa.n], &lb[..fb.n], false));
    kani::cover!(want == Ordering::Equal && fa.w != fb.w, "equal names differing in case");
}

// @funcs: ToName::{name_cmp,name_eq,composed_cmp,lowercase_composed_cmp}, <Name as Ord/PartialEq/Hash>, NameIter::next_back
// @bound: two flat names with label structures (2,1) and (2,1), all label octets symbolic: order = RFC 4034 6.1 reference, consistent with ==, antisymmetric, equal => same hash stream, composed orders = bytewise order of wire forms
// @outside: names of more than two labels
#[kani::proof]
#[kani::unwind(10)]
fn c04_name_laws_21_21() {
    name_laws::<2, 1, 2, 1>()
}

// @covers: optional
// @funcs: ToName::{name_cmp,name_eq}, Name::cmp
// @bound: label structures (1,1) versus (2,0): different label boundaries over the same number of octets (the a.b versus a\\.b situation), all octets symbolic
#[kani::proof]
#[kani::unwind(10)]
fn c04_name_laws_11_20() {
    name_laws::<1, 1, 2, 0>()
}

// @funcs: Chain<RelativeName,Name>::{iter_labels,name_eq,name_cmp}, RelativeName::chain, ToName for Chain
// @bound: name (2,1) stored flat versus the same octets stored as chain(relative first label, absolute rest), compared against a second flat name (1,1): equality, order and hash stream do not depend on the representation
#[kani::proof]
#[kani::unwind(10)]
fn c04_name_representation_independent() {
    let (fa, fb) = (FlatName::any::<2, 1>(), FlatName::any::<1, 1>());
    let flat = fa.name();
    let rel = RelativeName::from_slice(&fa.w[..3]).unwrap();
    let rest = Name::from_slice(&fa.w[3..fa.n]).unwrap();
    let chain = rel.chain(rest).unwrap();
    let other = fb.name();
    assert!(chain.name_eq(&flat) && flat.name_eq(&chain));
    assert!(chain.name_cmp(&flat) == Ordering::Equal);
    assert!(chain.name_cmp(&other) == flat.name_cmp(&other));
    assert!(other.name_cmp(&chain) == other.name_cmp(&flat));
    assert!(chain.name_eq(&other) == flat.name_eq(&other));
    assert!(chain.compose_len() == flat.compose_len());
    // Chain has no Hash impl of its own; its labels are what a hasher would see
    let mut hc = RecHasher::<16>::new();
    let mut hf = RecHasher::<16>::new();
    for l in chain.iter_labels() {
        l.hash(&mut hc);
    }
    flat.hash(&mut hf);
    assert!(hc.same(&hf));
}

// ---------------------------------------------------------------- records
use domain::base::iana::Class;
use domain::base::Record;
use domain::rdata::A;

// @funcs: <Record as PartialEq>::eq, <Record as Hash>::hash, <Record as CanonicalOrd>::canonical_cmp, <A as CanonicalOrd>
// @bound: two A records with one-label owners (symbolic octet), symbolic class, TTL and address: equal records feed identical octets to the hasher; canonical order = (class, owner in canonical name order, type, RDATA octets)
#[kani::proof]
#[kani::unwind(16)]
fn c04_record_eq_hash_canonical() {
    let (fa, fb) = (FlatName::any::<1, 0>(), FlatName::any::<1, 0>());
    let (c1, c2, t1, t2): (u16, u16, u32, u32) = (kani::any(), kani::any(), kani::any(), kani::any());
    let (a1, a2): ([u8; 4], [u8; 4]) = (kani::any(), kani::any());
    let r1 = Record::new(fa.name(), Class::from_int(c1), Ttl::from_secs(t1), A::from_octets(a1[0], a1[1], a1[2], a1[3]));
    let r2 = Record::new(fb.name(), Class::from_int(c2), Ttl::from_secs(t2), A::from_octets(a2[0], a2[1], a2[2], a2[3]));
    let same = lc(fa.w[1]) == lc(fb.w[1]) && c1 == c2 && a1 == a2;
    assert!((r1 == r2) == same);
    if r1 == r2 {
        let mut h1 = RecHasher::<24>::new();
        let mut h2 = RecHasher::<24>::new();
        r1.hash(&mut h1);
        r2.hash(&mut h2);
        assert!(h1.same(&h2));
    }
    let want = match c1.cmp(&c2) {
        Ordering::Equal => match lc(fa.w[1]).cmp(&lc(fb.w[1])) {
            Ordering::Equal => lex_cmp(&a1, &a2, false),
            o => o,
        },
        o => o,
    };
    assert!(r1.canonical_cmp(&r2) == want);
    kani::cover!(r1 == r2 && t1 != t2, "equal records with different TTLs");
}

// ------------------------------------ canonical RDATA order, per type (H5)
use domain::base::iana::{DigestAlgorithm, SecurityAlgorithm};
use domain::base::rdata::ComposeRecordData;
use domain::rdata::{Dnskey, Ds, Mx, Txt};

macro_rules! canon_order {
    ($a:expr, $b:expr) => {{
        let (a, b) = ($a, $b);
        let mut ba = FixedBuf::<32> { data: [0; 32], len: 0 };
        let mut bb = FixedBuf::<32> { data: [0; 32], len: 0 };
        a.compose_canonical_rdata(&mut ba).unwrap();
        b.compose_canonical_rdata(&mut bb).unwrap();
        let want = lex_cmp(ba.as_slice(), bb.as_slice(), false);
        assert!(a.canonical_cmp(&b) == want);
        assert!(b.canonical_cmp(&a) == want.reverse());
        want
    }};
}

// @funcs: <A/Ds/Dnskey as CanonicalOrd>::canonical_cmp, compose_canonical_rdata
// @bound: pairs of A (all addresses), DS and DNSKEY values (all fixed fields, digests/keys of 2 symbolic octets): canonical_cmp = octet-wise order of the canonical wire forms (RFC 4034 6.3), antisymmetric
#[kani::proof]
#[kani::unwind(10)]
fn c04_canonical_rdata_order_a_ds_dnskey() {
    let which: u8 = kani::any();
    kani::assume(which < 3);
    if which == 0 {
        let (x, y): ([u8; 4], [u8; 4]) = (kani::any(), kani::any());
        canon_order!(A::from_octets(x[0], x[1], x[2], x[3]), A::from_octets(y[0], y[1], y[2], y[3]));
    } else if which == 1 {
        let (k1, k2, a1, a2, d1, d2): (u16, u16, u8, u8, u8, u8) = (kani::any(), kani::any(), kani::any(), kani::any(), kani::any(), kani::any());
        let (g1, g2): ([u8; 2], [u8; 2]) = (kani::any(), kani::any());
        canon_order!(
            Ds::new(k1, SecurityAlgorithm::from_int(a1), DigestAlgorithm::from_int(d1), &g1[..]).unwrap(),
            Ds::new(k2, SecurityAlgorithm::from_int(a2), DigestAlgorithm::from_int(d2), &g2[..]).unwrap()
        );
    } else {
        let (f1, f2, p1, p2, a1, a2): (u16, u16, u8, u8, u8, u8) = (kani::any(), kani::any(), kani::any(), kani::any(), kani::any(), kani::any());
        let (g1, g2): ([u8; 2], [u8; 2]) = (kani::any(), kani::any());
        canon_order!(
            Dnskey::new(f1, p1, SecurityAlgorithm::from_int(a1), &g1[..]).unwrap(),
            Dnskey::new(f2, p2, SecurityAlgorithm::from_int(a2), &g2[..]).unwrap()
        );
    }
}

// @funcs: <Mx as CanonicalOrd>::canonical_cmp, <Txt as CanonicalOrd>::canonical_cmp, compose_canonical_rdata
// @bound: pairs of MX values (any preference, exchange with structure (2,1), symbolic content incl. case variants) and pairs of one-string TXT values of 2 symbolic octets: canonical_cmp = octet-wise order of the canonical wire forms
#[kani::proof]
#[kani::unwind(10)]
fn c04_canonical_rdata_order_mx_txt() {
    if kani::any() {
        let (fa, fb) = (FlatName::any::<2, 1>(), FlatName::any::<2, 1>());
        let (p1, p2): (u16, u16) = (kani::any(), kani::any());
        let w = canon_order!(Mx::new(p1, fa.name()), Mx::new(p2, fb.name()));
        kani::cover!(w == Ordering::Equal && fa.w != fb.w, "case variants are canonically equal");
    } else {
        let (x, y): ([u8; 2], [u8; 2]) = (kani::any(), kani::any());
        let (wx, wy) = ([2u8, x[0], x[1]], [2u8, y[0], y[1]]);
        canon_order!(Txt::from_octets(&wx[..]).unwrap(), Txt::from_octets(&wy[..]).unwrap());
    }
}

// @funcs: Chain::{iter_labels,name_eq,name_cmp} versus flat names of the SAME length with shifted label boundaries
// @bound: chained name with structure (2,1) against a flat name with structure (1,2) (same total length, symbolic content): equality/order agree with the flat representation of the chained name, and names with different label boundaries are never equal
#[kani::proof]
#[kani::unwind(10)]
fn c04_name_representation_shifted_boundaries() {
    let (fa, fb) = (FlatName::any::<2, 1>(), FlatName::any::<1, 2>());
    let flat = fa.name();
    let rel = RelativeName::from_slice(&fa.w[..3]).unwrap();
    let rest = Name::from_slice(&fa.w[3..fa.n]).unwrap();
    let chain = rel.chain(rest).unwrap();
    let other = fb.name();
    assert!(!flat.name_eq(&other));
    assert!(!chain.name_eq(&other) && !other.name_eq(&chain));
    assert!(chain.name_cmp(&other) == flat.name_cmp(&other));
    assert!(chain.name_cmp(&other) != Ordering::Equal);
}

// @funcs: <Rrsig as CanonicalOrd>::canonical_cmp, Rrsig::compose_canonical_rdata
// @bound: pairs of RRSIG values with all fixed fields symbolic, signer names with structures (1,1) and (1,0) (symbolic content, so name order and wire order can differ), empty signatures: canonical_cmp = octet-wise order of the canonical wire forms
#[kani::proof]
#[kani::unwind(28)]
fn c04_canonical_rdata_order_rrsig() {
    use domain::base::Rtype;
    use domain::rdata::dnssec::{Rrsig, Timestamp};
    let (fa, fb) = (FlatName::any::<1, 1>(), FlatName::any::<1, 0>());
    let (t1, t2, a1, a2, l1, l2, k1, k2): (u16, u16, u8, u8, u8, u8, u16, u16) =
        (kani::any(), kani::any(), kani::any(), kani::any(), kani::any(), kani::any(), kani::any(), kani::any());
    let (o1, o2, e1, e2, i1, i2): (u32, u32, u32, u32, u32, u32) = (kani::any(), kani::any(), kani::any(), kani::any(), kani::any(), kani::any());
    let r1 = Rrsig::new(Rtype::from_int(t1), SecurityAlgorithm::from_int(a1), l1, Ttl::from_secs(o1), Timestamp::from(e1), Timestamp::from(i1), k1, fa.name(), &[][..]).unwrap();
    let r2 = Rrsig::new(Rtype::from_int(t2), SecurityAlgorithm::from_int(a2), l2, Ttl::from_secs(o2), Timestamp::from(e2), Timestamp::from(i2), k2, fb.name(), &[][..]).unwrap();
    let w = canon_order!(r1, r2);
    kani::cover!(w == Ordering::Less && t1 == t2 && a1 == a2 && l1 == l2 && o1 == o2 && e1 == e2 && i1 == i2 && k1 == k2, "order decided by the signer name");
}

// ------------------------------------ opaque record data and the all-types enum
use domain::base::rdata::UnknownRecordData;
use domain::base::iana::Rtype;
use domain::rdata::AllRecordData;

// @funcs: <UnknownRecordData as PartialEq/PartialOrd/Ord/CanonicalOrd>, UnknownRecordData::from_octets
// @bound: two opaque record data values, any two record types (all 2^16 x 2^16), data of 0..=2 symbolic octets: == <=> same type and same octets <=> cmp/partial_cmp/canonical_cmp say Equal; the orders are antisymmetric; within one type the canonical order is the octet-wise order of the data
// @outside: data longer than 2 octets
#[kani::proof]
#[kani::unwind(6)]
fn c04_unknown_rdata_eq_ord_coherent() {
    let (t1, t2): (u16, u16) = (kani::any(), kani::any());
    let (d1, d2): ([u8; 2], [u8; 2]) = (kani::any(), kani::any());
    let (n1, n2): (usize, usize) = (kani::any(), kani::any());
    kani::assume(n1 <= 2 && n2 <= 2);
    let a = UnknownRecordData::from_octets(Rtype::from_int(t1), &d1[..n1]).unwrap();
    let b = UnknownRecordData::from_octets(Rtype::from_int(t2), &d2[..n2]).unwrap();
    let same = t1 == t2 && lex_cmp(&d1[..n1], &d2[..n2], false) == Ordering::Equal;
    assert!((a == b) == same);
    assert!((a.cmp(&b) == Ordering::Equal) == same);
    assert!((a.partial_cmp(&b) == Some(Ordering::Equal)) == same);
    assert!((a.canonical_cmp(&b) == Ordering::Equal) == same);
    assert!(b.cmp(&a) == a.cmp(&b).reverse());
    assert!(b.canonical_cmp(&a) == a.canonical_cmp(&b).reverse());
    if t1 == t2 {
        assert!(a.canonical_cmp(&b) == lex_cmp(&d1[..n1], &d2[..n2], false));
    }
    kani::cover!(t1 != t2 && n1 == n2 && d1 == d2, "same octets under different types");
    kani::cover!(same && n1 == 2, "equal two-octet data");
}

// @funcs: <AllRecordData as PartialEq>::eq, <AllRecordData as PartialOrd>::partial_cmp, <AllRecordData as CanonicalOrd>::canonical_cmp, <AllRecordData as Hash>::hash (Unknown variant)
// @bound: two AllRecordData::Unknown values, any two record types, data of 0..=2 symbolic octets: == <=> same type and octets <=> partial_cmp/canonical_cmp Equal; every value equals itself; equal values feed the hasher identical octets
// @outside: the other variants of the enum (the typed variants delegate to the per-type impls checked elsewhere), OPT variant (separate harness)
#[kani::proof]
#[kani::unwind(14)]
fn c04_all_record_data_unknown_variant_coherent() {
    type All<'a> = AllRecordData<&'a [u8], domain::base::name::Name<&'a [u8]>>;
    let (t1, t2): (u16, u16) = (kani::any(), kani::any());
    let (d1, d2): ([u8; 2], [u8; 2]) = (kani::any(), kani::any());
    let (n1, n2): (usize, usize) = (kani::any(), kani::any());
    kani::assume(n1 <= 2 && n2 <= 2);
    let a: All = AllRecordData::Unknown(UnknownRecordData::from_octets(Rtype::from_int(t1), &d1[..n1]).unwrap());
    let b: All = AllRecordData::Unknown(UnknownRecordData::from_octets(Rtype::from_int(t2), &d2[..n2]).unwrap());
    let same = t1 == t2 && lex_cmp(&d1[..n1], &d2[..n2], false) == Ordering::Equal;
    assert!(a == a);
    assert!((a == b) == same);
    assert!((a.partial_cmp(&b) == Some(Ordering::Equal)) == same);
    assert!((a.canonical_cmp(&b) == Ordering::Equal) == same);
    if a == b {
        let mut h1 = RecHasher::<24>::new();
        let mut h2 = RecHasher::<24>::new();
        a.hash(&mut h1);
        b.hash(&mut h2);
        assert!(h1.same(&h2));
    }
    kani::cover!(same && n1 == 2, "equal two-octet data");
    kani::cover!(t1 != t2 && n1 == n2 && d1 == d2, "same octets under different types");
}

// @funcs: <Nsec as PartialEq/PartialOrd/Ord/CanonicalOrd>, <RtypeBitmap as Ord/CanonicalOrd>, Nsec::compose_canonical_rdata
// @bound: pairs of NSEC values: next names with structure (1) (symbolic octet incl. case variants), type bitmaps of one window with one bitmap octet (window number and bits symbolic): canonical_cmp = octet-wise order of the canonical wire forms (RFC 4034 6.3; next name not lower-cased, RFC 6840 5.1) and antisymmetric; == <=> cmp/partial_cmp Equal
// @outside: longer names, multi-window bitmaps
#[kani::proof]
#[kani::unwind(12)]
fn c04_canonical_rdata_order_nsec() {
    use domain::rdata::dnssec::RtypeBitmap;
    use domain::rdata::Nsec;
    let (fa, fb) = (FlatName::any::<1, 0>(), FlatName::any::<1, 0>());
    let (w1, w2, b1, b2): (u8, u8, u8, u8) = (kani::any(), kani::any(), kani::any(), kani::any());
    kani::assume(b1 != 0 && b2 != 0);
    let (m1, m2) = ([w1, 1, b1], [w2, 1, b2]);
    let a = Nsec::new(fa.name(), RtypeBitmap::from_octets(&m1[..]).unwrap());
    let b = Nsec::new(fb.name(), RtypeBitmap::from_octets(&m2[..]).unwrap());
    let w = canon_order!(a.clone(), b.clone());
    let same = lc(fa.w[1]) == lc(fb.w[1]) && m1 == m2;
    assert!((a == b) == same);
    assert!((a.cmp(&b) == Ordering::Equal) == same);
    assert!((a.partial_cmp(&b) == Some(Ordering::Equal)) == same);
    assert!(b.cmp(&a) == a.cmp(&b).reverse());
    kani::cover!(fa.w[1] == fb.w[1] && m1 != m2, "same next name, different type bitmaps");
    kani::cover!(w == Ordering::Less, "canonically less");
}
