//! C05 — record data survives compose/parse; lengths exact.
// @@prop: C05
// @@fs: core
// @@timeout: 900
use crate::refmodel::*;
use core::net::{Ipv4Addr, Ipv6Addr};
use domain::base::charstr::CharStr;
use domain::base::iana::*;
use domain::base::name::Name;
use domain::base::rdata::{ComposeRecordData, RecordData, UnknownRecordData};
use domain::base::{Serial, Ttl};
use domain::rdata::*;
use octseq::parse::Parser;

type Buf = FixedBuf<64>;
fn newbuf() -> Buf {
    FixedBuf { data: [0; 64], len: 0 }
}

/// Symbolic octet string of 0..=N octets.
struct Bytes<const N: usize> {
    d: [u8; N],
    pub(crate) n: usize,
}
impl<const N: usize> Bytes<N> {
    fn any() -> Self {
        let d: [u8; N] = kani::any();
        let n: usize = kani::any();
        kani::assume(n <= N);
        Bytes { d, n }
    }
    fn s(&self) -> &[u8] {
        &self.d[..self.n]
    }
}

/// Common oracle: compose_rdata / rdlen / compose_len_rdata /
/// compose_canonical_rdata agree, and parse(compose(v)) == v with nothing
/// left over.  `$lower` = canonical form differs from wire form only in
/// lower-cased names (checked by the caller), otherwise identical.
macro_rules! rt_checks {
    ($v:expr, $parse:path, $canon_same:expr) => {{
        let v = $v;
        let mut buf = newbuf();
        v.compose_rdata(&mut buf).unwrap();
        let n = buf.len;
        if let Some(l) = v.rdlen(false) {
            assert!(l as usize == n);
        }
        let mut lb = newbuf();
        v.compose_len_rdata(&mut lb).unwrap();
        assert!(lb.len == n + 2);
        assert!((((lb.data[0] as usize) << 8) | lb.data[1] as usize) == n);
        let i: usize = kani::any();
        kani::assume(i < 62);
        if i < n {
            assert!(lb.data[2 + i] == buf.data[i]);
        }
        let mut cb = newbuf();
        v.compose_canonical_rdata(&mut cb).unwrap();
        assert!(cb.len == n);
        if $canon_same && i < n {
            assert!(cb.data[i] == buf.data[i]);
        }
        let mut p = Parser::from_ref(&buf.data[..n]);
        let back = $parse(&mut p).unwrap();
        assert!(p.remaining() == 0);
        assert!(back == v);
        (buf, cb, n)
    }};
}

fn be16(b: &[u8], at: usize) -> u16 {
    ((b[at] as u16) << 8) | b[at + 1] as u16
}
fn be32(b: &[u8], at: usize) -> u32 {
    ((b[at] as u32) << 24) | ((b[at + 1] as u32) << 16) | ((b[at + 2] as u32) << 8) | b[at + 3] as u32
}
/// buf[at..at+s.len()] == s
fn has(b: &[u8], at: usize, s: &[u8]) -> bool {
    let mut i = 0;
    while i < s.len() {
        if b[at + i] != s[i] {
            return false;
        }
        i += 1;
    }
    true
}

// @funcs: A::{new,parse,compose_rdata,rdlen}, Aaaa::{new,parse,compose_rdata,rdlen}
// @bound: all IPv4 / IPv6 addresses (full width)
#[kani::proof]
#[kani::unwind(20)]
fn c05_a_aaaa() {
    let a4: [u8; 4] = kani::any();
    let (buf, _, n) = rt_checks!(A::new(Ipv4Addr::from(a4)), A::parse, true);
    assert!(n == 4 && has(&buf.data, 0, &a4));
    assert!(A::new(Ipv4Addr::from(a4)).rtype() == Rtype::A);
    let a6: [u8; 16] = kani::any();
    let (buf, _, n) = rt_checks!(Aaaa::new(Ipv6Addr::from(a6)), Aaaa::parse, true);
    assert!(n == 16 && has(&buf.data, 0, &a6));
}

// @funcs: Ds::{new,parse,compose_rdata,rdlen,eq}, Cds::{...}
// @bound: all key tags / algorithm / digest type octets, digests of 0..=3 symbolic octets; wire = tag(2) alg(1) type(1) digest
#[kani::proof]
#[kani::unwind(8)]
fn c05_ds_cds() {
    let (kt, alg, dt): (u16, u8, u8) = (kani::any(), kani::any(), kani::any());
    let dig = Bytes::<3>::any();
    let cds: bool = kani::any();
    if cds {
        let v = Cds::new(kt, SecurityAlgorithm::from_int(alg), DigestAlgorithm::from_int(dt), dig.s()).unwrap();
        let (buf, _, n) = rt_checks!(v, Cds::parse, true);
        assert!(n == 4 + dig.n && be16(&buf.data, 0) == kt && buf.data[2] == alg && buf.data[3] == dt && has(&buf.data, 4, dig.s()));
    } else {
        let v = Ds::new(kt, SecurityAlgorithm::from_int(alg), DigestAlgorithm::from_int(dt), dig.s()).unwrap();
        let (buf, _, n) = rt_checks!(v, Ds::parse, true);
        assert!(n == 4 + dig.n && be16(&buf.data, 0) == kt && buf.data[2] == alg && buf.data[3] == dt && has(&buf.data, 4, dig.s()));
    }
    kani::cover!(dig.n == 3, "longest digest");
}

// @funcs: Dnskey::{new,parse,compose_rdata,rdlen,eq}, Cdnskey::{...}
// @bound: all flags/protocol/algorithm, keys of 0..=3 symbolic octets; wire = flags(2) proto(1) alg(1) key
#[kani::proof]
#[kani::unwind(8)]
fn c05_dnskey_cdnskey() {
    let (fl, pr, alg): (u16, u8, u8) = (kani::any(), kani::any(), kani::any());
    let key = Bytes::<3>::any();
    let c: bool = kani::any();
    if c {
        let v = Cdnskey::new(fl, pr, SecurityAlgorithm::from_int(alg), key.s()).unwrap();
        let (buf, _, n) = rt_checks!(v, Cdnskey::parse, true);
        assert!(n == 4 + key.n && be16(&buf.data, 0) == fl && buf.data[2] == pr && buf.data[3] == alg && has(&buf.data, 4, key.s()));
    } else {
        let v = Dnskey::new(fl, pr, SecurityAlgorithm::from_int(alg), key.s()).unwrap();
        let (buf, _, n) = rt_checks!(v, Dnskey::parse, true);
        assert!(n == 4 + key.n && be16(&buf.data, 0) == fl && buf.data[2] == pr && buf.data[3] == alg && has(&buf.data, 4, key.s()));
    }
}

// @funcs: Hinfo::{new,parse,compose_rdata,rdlen}, CharStr::{from_slice,parse,compose}
// @bound: two character strings of 0..=3 symbolic octets each; wire = len cpu len os
#[kani::proof]
#[kani::unwind(8)]
fn c05_hinfo() {
    let (a, b) = (Bytes::<3>::any(), Bytes::<3>::any());
    let v = Hinfo::new(CharStr::from_octets(a.s()).unwrap(), CharStr::from_octets(b.s()).unwrap());
    let (buf, _, n) = rt_checks!(v, Hinfo::parse, true);
    assert!(n == 2 + a.n + b.n);
    assert!(buf.data[0] as usize == a.n && has(&buf.data, 1, a.s()));
    assert!(buf.data[1 + a.n] as usize == b.n && has(&buf.data, 2 + a.n, b.s()));
}

// @funcs: Txt::{from_octets,check_slice,parse,compose_rdata,rdlen,eq}
// @bound: every octet string of 0..=5 symbolic octets offered as TXT RDATA: accepted <=> it is a sequence of complete character strings; accepted data round-trips byte-identically
#[kani::proof]
#[kani::unwind(9)]
fn c05_txt() {
    let raw = Bytes::<5>::any();
    // reference: walk length octets
    let mut pos = 0;
    let mut ok = raw.n > 0; // empty TXT RDATA is not allowed by the library (RFC 1035: one or more strings)
    let mut k = 0;
    while k < 6 && pos < raw.n {
        pos += raw.d[pos] as usize + 1;
        k += 1;
    }
    if pos != raw.n {
        ok = false;
    }
    match Txt::from_octets(raw.s()) {
        Ok(v) => {
            assert!(ok || raw.n == 0);
            let (buf, _, n) = rt_checks!(v, Txt::parse, true);
            assert!(n == raw.n && has(&buf.data, 0, raw.s()));
        }
        Err(_) => assert!(!ok),
    }
    kani::cover!(ok && raw.n == 5, "accepted 5-octet TXT");
}

// @funcs: Sshfp, Tlsa, Openpgpkey, Null ::{new/from_octets,parse,compose_rdata,rdlen,eq}
// @bound: all enum octets, payloads of 0..=3 symbolic octets
#[kani::proof]
#[kani::unwind(8)]
fn c05_sshfp_tlsa_openpgpkey_null() {
    let which: u8 = kani::any();
    kani::assume(which < 4);
    let (x, y, z): (u8, u8, u8) = (kani::any(), kani::any(), kani::any());
    let d = Bytes::<3>::any();
    match which {
        0 => {
            let v = Sshfp::new(SshfpAlgorithm::from_int(x), SshfpType::from_int(y), d.s());
            let (buf, _, n) = rt_checks!(v, Sshfp::parse, true);
            assert!(n == 2 + d.n && buf.data[0] == x && buf.data[1] == y && has(&buf.data, 2, d.s()));
        }
        1 => {
            let v = Tlsa::new(TlsaCertificateUsage::from_int(x), TlsaSelector::from_int(y), TlsaMatchingType::from_int(z), d.s());
            let (buf, _, n) = rt_checks!(v, Tlsa::parse, true);
            assert!(n == 3 + d.n && buf.data[0] == x && buf.data[1] == y && buf.data[2] == z && has(&buf.data, 3, d.s()));
        }
        2 => {
            let v = Openpgpkey::new(d.s());
            let (buf, _, n) = rt_checks!(v, Openpgpkey::parse, true);
            assert!(n == d.n && has(&buf.data, 0, d.s()));
        }
        _ => {
            let v = Null::from_octets(d.s()).unwrap();
            let (buf, _, n) = rt_checks!(v, Null::parse, true);
            assert!(n == d.n && has(&buf.data, 0, d.s()));
        }
    }
}

// @funcs: UnknownRecordData::{from_octets,parse_rdata? (via parse),compose_rdata,rdlen,eq}
// @bound: any rtype value, payload of 0..=4 symbolic octets: carried opaquely and unchanged
#[kani::proof]
#[kani::unwind(8)]
fn c05_unknown_opaque() {
    let rt: u16 = kani::any();
    let d = Bytes::<4>::any();
    let v = UnknownRecordData::from_octets(Rtype::from_int(rt), d.s()).unwrap();
    assert!(v.rtype() == Rtype::from_int(rt));
    let mut buf = newbuf();
    v.compose_rdata(&mut buf).unwrap();
    assert!(buf.len == d.n && has(&buf.data, 0, d.s()));
    assert!(v.rdlen(false) == Some(d.n as u16));
    let mut cb = newbuf();
    v.compose_canonical_rdata(&mut cb).unwrap();
    assert!(cb.len == d.n && has(&cb.data, 0, d.s()));
    let mut p = Parser::from_ref(&buf.data[..buf.len]);
    let back = UnknownRecordData::parse_any_rdata(Rtype::from_int(rt), &mut p).unwrap();
    assert!(p.remaining() == 0);
    assert!(back.data().as_ref() as &[u8] == d.s());
    assert!(back.rtype() == Rtype::from_int(rt));
}

// ---- name-bearing types: compose side against an independent layout --------

/// flat absolute name with a concrete label structure (L1 >= 1 and L2 >= 0
/// content octets) and fully symbolic label content
pub(crate) struct FlatName {
    pub(crate) w: [u8; 8],
    pub(crate) n: usize,
}
impl FlatName {
    pub(crate) fn any<const L1: usize, const L2: usize>() -> Self {
        let c: [u8; 4] = kani::any();
        let mut w = [0u8; 8];
        let mut n = 0;
        w[n] = L1 as u8;
        n += 1;
        let mut i = 0;
        while i < L1 {
            w[n] = c[i];
            n += 1;
            i += 1;
        }
        if L2 > 0 {
            w[n] = L2 as u8;
            n += 1;
            let mut i = 0;
            while i < L2 {
                w[n] = c[2 + i];
                n += 1;
                i += 1;
            }
        }
        w[n] = 0;
        n += 1;
        FlatName { w, n }
    }
    pub(crate) fn name(&self) -> Name<&[u8]> {
        Name::from_octets(&self.w[..self.n]).unwrap()
    }
    /// w with label content lower-cased
    pub(crate) fn lower(&self) -> [u8; 8] {
        let mut o = self.w;
        let mut pos = 0;
        let mut k = 0;
        while k < 3 && pos < self.n {
            let l = self.w[pos] as usize;
            let mut i = 0;
            while i < l {
                o[pos + 1 + i] = lc(self.w[pos + 1 + i]);
                i += 1;
            }
            pos += l + 1;
            k += 1;
        }
        o
    }
}

macro_rules! compose_checks {
    ($v:expr) => {{
        let v = $v;
        let mut buf = newbuf();
        v.compose_rdata(&mut buf).unwrap();
        if let Some(l) = v.rdlen(false) {
            assert!(l as usize == buf.len);
        }
        let mut lb = newbuf();
        v.compose_len_rdata(&mut lb).unwrap();
        assert!(lb.len == buf.len + 2);
        assert!((((lb.data[0] as usize) << 8) | lb.data[1] as usize) == buf.len);
        let mut cb = newbuf();
        v.compose_canonical_rdata(&mut cb).unwrap();
        assert!(cb.len == buf.len);
        (buf, cb)
    }};
}

// @funcs: Mx, Srv ::{new,compose_rdata,compose_canonical_rdata,rdlen,compose_len_rdata} with N = Name<&[u8]>
// @bound: all integer fields, exchange/target = flat names with label structure (2,1) or (1) and fully symbolic label content; canonical form = wire form with the name lower-cased (RFC 4034 6.2 lists MX and SRV; RFC 6840 5.1 only removes NSEC and the HINFO typo)
// @outside: parse side for name-bearing types (ParsedName::parse_ref is out of reach for CBMC, see DESIGN section 2)
#[kani::proof]
#[kani::unwind(10)]
fn c05_mx_srv_compose_21() {
    mx_srv::<2, 1>()
}

// @funcs: Mx, Srv ::{new,compose_rdata,compose_canonical_rdata,rdlen,compose_len_rdata}
// @bound: as c05_mx_srv_compose_21 with a one-label one-octet name
#[kani::proof]
#[kani::unwind(10)]
fn c05_mx_srv_compose_10() {
    mx_srv::<1, 0>()
}

fn mx_srv<const L1: usize, const L2: usize>() {
    let nm = FlatName::any::<L1, L2>();
    let (a, b, c): (u16, u16, u16) = (kani::any(), kani::any(), kani::any());
    let low = nm.lower();
    if kani::any() {
        let (buf, cb) = compose_checks!(Mx::new(a, nm.name()));
        assert!(buf.len == 2 + nm.n && be16(&buf.data, 0) == a && has(&buf.data, 2, &nm.w[..nm.n]));
        assert!(be16(&cb.data, 0) == a && has(&cb.data, 2, &low[..nm.n]));
    } else {
        let (buf, cb) = compose_checks!(Srv::new(a, b, c, nm.name()));
        assert!(buf.len == 6 + nm.n && be16(&buf.data, 0) == a && be16(&buf.data, 2) == b && be16(&buf.data, 4) == c);
        assert!(has(&buf.data, 6, &nm.w[..nm.n]));
        // RFC 4034 6.2 (list unchanged for SRV by RFC 6840 5.1): target is lower-cased
        assert!(be16(&cb.data, 0) == a && be16(&cb.data, 2) == b && be16(&cb.data, 4) == c);
        assert!(has(&cb.data, 6, &low[..nm.n]));
    }
}

// @funcs: Soa::{new,compose_rdata,compose_canonical_rdata,rdlen}
// @bound: all five 32-bit fields, mname/rname flat names with label structures (2,1) and (1,2), symbolic content; canonical form lower-cases both names (RFC 4034 6.2)
#[kani::proof]
#[kani::unwind(10)]
fn c05_soa_compose() {
    let (m, r) = (FlatName::any::<2, 1>(), FlatName::any::<1, 2>());
    let f: [u32; 5] = kani::any();
    let v = Soa::new(m.name(), r.name(), Serial(f[0]), Ttl::from_secs(f[1]), Ttl::from_secs(f[2]), Ttl::from_secs(f[3]), Ttl::from_secs(f[4]));
    let (buf, cb) = compose_checks!(v);
    assert!(buf.len == m.n + r.n + 20);
    assert!(has(&buf.data, 0, &m.w[..m.n]) && has(&buf.data, m.n, &r.w[..r.n]));
    let (lm, lr) = (m.lower(), r.lower());
    assert!(has(&cb.data, 0, &lm[..m.n]) && has(&cb.data, m.n, &lr[..r.n]));
    let k: usize = kani::any();
    kani::assume(k < 5);
    assert!(be32(&buf.data, m.n + r.n + 4 * k) == f[k]);
    assert!(be32(&cb.data, m.n + r.n + 4 * k) == f[k]);
}

// @funcs: Ns, Cname, Ptr, Dname ::{new,compose_rdata,compose_canonical_rdata,rdlen}
// @bound: flat names with label structure (2,2) or (1), symbolic content; wire = the name; canonical = lower-cased name
#[kani::proof]
#[kani::unwind(10)]
fn c05_single_name_types_compose_22() {
    single_name::<2, 2>()
}

// @funcs: Ns, Cname, Ptr, Dname ::{new,compose_rdata,compose_canonical_rdata,rdlen}
// @bound: as c05_single_name_types_compose_22 with a one-label one-octet name
#[kani::proof]
#[kani::unwind(10)]
fn c05_single_name_types_compose_10() {
    single_name::<1, 0>()
}

fn single_name<const L1: usize, const L2: usize>() {
    let nm = FlatName::any::<L1, L2>();
    let low = nm.lower();
    let which: u8 = kani::any();
    kani::assume(which < 4);
    let (buf, cb) = match which {
        0 => compose_checks!(Ns::new(nm.name())),
        1 => compose_checks!(Cname::new(nm.name())),
        2 => compose_checks!(Ptr::new(nm.name())),
        _ => compose_checks!(Dname::new(nm.name())),
    };
    assert!(buf.len == nm.n && has(&buf.data, 0, &nm.w[..nm.n]));
    assert!(has(&cb.data, 0, &low[..nm.n]));
}

// @funcs: Tsig::{new,compose_rdata,rdlen,compose_len_rdata}, Time48::compose
// @bound: algorithm name with label structure (2,1) and symbolic content, all integer fields, MAC of 2 and other-data of 3 symbolic octets (concrete lengths, symbolic content): advertised length == octets written; layout per RFC 8945 4.2
#[kani::proof]
#[kani::unwind(10)]
fn c05_tsig_compose_mac2_other3() {
    tsig_compose::<2, 3>()
}

// @funcs: Tsig::{new,compose_rdata,rdlen,compose_len_rdata}
// @bound: as above with empty MAC and empty other data
#[kani::proof]
#[kani::unwind(10)]
fn c05_tsig_compose_mac0_other0() {
    tsig_compose::<0, 0>()
}

fn tsig_compose<const M: usize, const O: usize>() {
    use domain::rdata::tsig::{Time48, Tsig};
    let nm = FlatName::any::<2, 1>();
    let t: u64 = kani::any();
    kani::assume(t < (1 << 48));
    let (fudge, oid, err): (u16, u16, u16) = (kani::any(), kani::any(), kani::any());
    let macd: [u8; M] = kani::any();
    let otherd: [u8; O] = kani::any();
    let (mac, other) = (Bytes::<M> { d: macd, n: M }, Bytes::<O> { d: otherd, n: O });
    let v = Tsig::new(nm.name(), Time48::from_u64(t), fudge, mac.s(), oid, TsigRcode::from_int(err), other.s()).unwrap();
    let (buf, _cb) = compose_checks!(v);
    let mut o = nm.n;
    assert!(buf.len == nm.n + 16 + mac.n + other.n);
    assert!(has(&buf.data, 0, &nm.w[..nm.n]));
    assert!(((be16(&buf.data, o) as u64) << 32 | be32(&buf.data, o + 2) as u64) == t);
    o += 6;
    assert!(be16(&buf.data, o) == fudge && be16(&buf.data, o + 2) as usize == mac.n && has(&buf.data, o + 4, mac.s()));
    o += 4 + mac.n;
    assert!(be16(&buf.data, o) == oid && be16(&buf.data, o + 2) == err && be16(&buf.data, o + 4) as usize == other.n && has(&buf.data, o + 6, other.s()));
}

// @funcs: RtypeBitmap::from_octets (window walk), used by Nsec::parse / Nsec3::parse
// @assume: the buffer holds at most the one window plus one stray octet (n <= 3 + len); multi-window walks are covered through the builder harnesses of C13
// @bound: every one-window bitmap [window, len, data...] with any declared length 0..=255 inside a buffer of 1..=37 octets: accepted <=> 1 <= len <= 32 and the data is exactly len octets (RFC 4034 4.1.2); a lone octet or one stray trailing octet is rejected
#[kani::proof]
#[kani::unwind(4)]
fn c05_bitmap_window_length_validation() {
    use domain::rdata::dnssec::RtypeBitmap;
    let buf: [u8; 37] = kani::any();
    let n: usize = kani::any();
    kani::assume(n >= 1 && n <= 37);
    let len = if n >= 2 { buf[1] as usize } else { 0 };
    kani::assume(n <= 3 + len);
    // single window: the buffer ends right after it, is too short, or has one stray octet behind it
    let r = RtypeBitmap::from_octets(&buf[..n]);
    let exact = n == 2 + len;
    if exact {
        assert!(r.is_ok() == (len >= 1 && len <= 32));
    } else {
        // truncated window, lone octet, or a stray octet after a complete window
        assert!(r.is_err());
    }
    kani::cover!(exact && len == 32 && r.is_ok(), "full 32-octet window accepted");
}

// ------------------------------------------------------------ more types
use domain::rdata::dnssec::RtypeBitmap;
use domain::rdata::nsec3::{Nsec3Salt, OwnerHash};

// @funcs: Nsec3param::{new,parse,compose_rdata,rdlen,eq}, Nsec3Salt::{from_octets,parse,compose}
// @bound: all algorithm/flags/iterations values, salts of 0..=3 symbolic octets; wire = alg(1) flags(1) iterations(2) saltlen(1) salt
#[kani::proof]
#[kani::unwind(8)]
fn c05_nsec3param() {
    let (alg, fl, it): (u8, u8, u16) = (kani::any(), kani::any(), kani::any());
    let salt = Bytes::<3>::any();
    let v = Nsec3param::new(Nsec3HashAlgorithm::from_int(alg), fl, it, Nsec3Salt::from_octets(salt.s()).unwrap());
    let (buf, _, n) = rt_checks!(v, Nsec3param::parse, true);
    assert!(n == 5 + salt.n && buf.data[0] == alg && buf.data[1] == fl && be16(&buf.data, 2) == it);
    assert!(buf.data[4] as usize == salt.n && has(&buf.data, 5, salt.s()));
}

// @funcs: Nsec3::{new,parse,compose_rdata,rdlen,eq}, OwnerHash::{from_octets,parse,compose}, RtypeBitmap::{from_octets,parse,compose}
// @bound: all fixed fields, salt and next-owner hash of 2 symbolic octets each (concrete lengths), a one-window type bitmap with 1 symbolic octet of bits; wire = alg flags iterations saltlen salt hashlen hash bitmap
#[kani::proof]
#[kani::unwind(8)]
fn c05_nsec3() {
    let (alg, fl, it): (u8, u8, u16) = (kani::any(), kani::any(), kani::any());
    let (salt, hash): ([u8; 2], [u8; 2]) = (kani::any(), kani::any());
    let (win, bits): (u8, u8) = (kani::any(), kani::any());
    kani::assume(bits != 0);
    let bm = [win, 1, bits];
    let v = Nsec3::new(
        Nsec3HashAlgorithm::from_int(alg),
        fl,
        it,
        Nsec3Salt::from_octets(&salt[..]).unwrap(),
        OwnerHash::from_octets(&hash[..]).unwrap(),
        RtypeBitmap::from_octets(&bm[..]).unwrap(),
    );
    let (buf, _, n) = rt_checks!(v, Nsec3::parse, true);
    assert!(n == 4 + 1 + 2 + 1 + 2 + 3);
    assert!(buf.data[0] == alg && buf.data[1] == fl && be16(&buf.data, 2) == it);
    assert!(buf.data[4] == 2 && has(&buf.data, 5, &salt) && buf.data[7] == 2 && has(&buf.data, 8, &hash) && has(&buf.data, 10, &bm));
}

// @funcs: Caa::{new,parse,compose_rdata,rdlen,eq}, CaaTag::{from_octets,check_slice}, CaaFlags
// @bound: all flag octets, tags of 1..=2 symbolic alphanumeric octets (other tags: constructor must refuse), values of 0..=3 symbolic octets
#[kani::proof]
#[kani::unwind(8)]
fn c05_caa() {
    use domain::rdata::caa::{Caa, CaaFlags, CaaTag};
    let fl: u8 = kani::any();
    let tag: [u8; 2] = kani::any();
    let val = Bytes::<3>::any();
    let alnum = |c: u8| (c >= b'0' && c <= b'9') || (c >= b'a' && c <= b'z') || (c >= b'A' && c <= b'Z');
    match CaaTag::from_octets(&tag[..]) {
        Ok(t) => {
            assert!(alnum(tag[0]) && alnum(tag[1]));
            let v = Caa::new(CaaFlags::new(fl), t, val.s());
            let (buf, _, n) = rt_checks!(v, Caa::parse, true);
            assert!(n == 2 + 2 + val.n && buf.data[0] == fl && buf.data[1] == 2 && has(&buf.data, 2, &tag) && has(&buf.data, 4, val.s()));
        }
        Err(_) => assert!(!(alnum(tag[0]) && alnum(tag[1]))),
    }
}

// @funcs: Zonemd::{new,parse,compose_rdata,rdlen,eq}
// @bound: all serial/scheme/algorithm values, digest of exactly 12 symbolic octets (the minimum the parser accepts); wire = serial(4) scheme(1) alg(1) digest
#[kani::proof]
#[kani::unwind(16)]
fn c05_zonemd() {
    let (ser, sch, alg): (u32, u8, u8) = (kani::any(), kani::any(), kani::any());
    let dig: [u8; 12] = kani::any();
    let v = Zonemd::new(Serial(ser), ZonemdScheme::from(sch), ZonemdAlgorithm::from(alg), &dig[..]);
    let (buf, _, n) = rt_checks!(v, Zonemd::parse, true);
    assert!(n == 18 && be32(&buf.data, 0) == ser && buf.data[4] == sch && buf.data[5] == alg && has(&buf.data, 6, &dig));
}

// @funcs: Minfo, Rp ::{new,compose_rdata,compose_canonical_rdata,rdlen}
// @bound: two flat names with structures (2,1) and (1,2), symbolic content; wire = both names; canonical = both lower-cased (RFC 4034 6.2 lists MINFO and RP)
#[kani::proof]
#[kani::unwind(10)]
fn c05_minfo_rp_compose() {
    let (a, b) = (FlatName::any::<2, 1>(), FlatName::any::<1, 2>());
    let (la, lb) = (a.lower(), b.lower());
    let rp: bool = kani::any();
    let (buf, cb) = if rp { compose_checks!(Rp::new(a.name(), b.name())) } else { compose_checks!(Minfo::new(a.name(), b.name())) };
    assert!(buf.len == a.n + b.n && has(&buf.data, 0, &a.w[..a.n]) && has(&buf.data, a.n, &b.w[..b.n]));
    assert!(has(&cb.data, 0, &la[..a.n]) && has(&cb.data, a.n, &lb[..b.n]));
}

// @funcs: Nsec::{new,compose_rdata,compose_canonical_rdata,rdlen}
// @bound: next name with structure (2,1) and symbolic content, one-window bitmap with symbolic bits; wire = name + bitmap; canonical form keeps the next name's case (RFC 6840 5.1 removed NSEC from the lower-casing list)
#[kani::proof]
#[kani::unwind(10)]
fn c05_nsec_compose() {
    let nm = FlatName::any::<2, 1>();
    let (win, bits): (u8, u8) = (kani::any(), kani::any());
    kani::assume(bits != 0);
    let bm = [win, 1, bits];
    let v = Nsec::new(nm.name(), RtypeBitmap::from_octets(&bm[..]).unwrap());
    let (buf, cb) = compose_checks!(v);
    assert!(buf.len == nm.n + 3 && has(&buf.data, 0, &nm.w[..nm.n]) && has(&buf.data, nm.n, &bm));
    assert!(has(&cb.data, 0, &nm.w[..nm.n]) && has(&cb.data, nm.n, &bm));
}

// ---------------------- RDATA length under a name-compressing target
use domain::base::message_builder::StaticCompressor;
use domain::base::wire::Composer;
use octseq::builder::OctetsBuilder;

fn len_prefix_under_compressor<const WHICH: usize>() {
    // message so far: 12 header octets + the name "c." (c symbolic) already written and remembered
    let c0: u8 = kani::any();
    let first = [1u8, c0, 0];
    let mut t: StaticCompressor<FixedBufM<48>> = StaticCompressor::new(FixedBufM { data: [0; 48], len: 0 });
    t.append_slice(&[0u8; 12]).unwrap();
    t.append_compressed_name(&Name::from_octets(&first[..]).unwrap()).unwrap();
    let start = t.as_slice().len();
    // RDATA name "x.c'." shares the suffix iff c' ~ c
    let nm = FlatName::any::<1, 1>();
    let pref: u16 = kani::any();
    match WHICH {
        0 => Dname::new(nm.name()).compose_len_rdata(&mut t).unwrap(),
        1 => Ns::new(nm.name()).compose_len_rdata(&mut t).unwrap(),
        2 => Cname::new(nm.name()).compose_len_rdata(&mut t).unwrap(),
        _ => Mx::new(pref, nm.name()).compose_len_rdata(&mut t).unwrap(),
    }
    let msg = t.as_slice();
    let announced = be16(msg, start) as usize;
    // the length prefix equals the octets actually written behind it
    assert!(announced == msg.len() - start - 2);
    if WHICH == 0 {
        // RFC 6672 2.5: the DNAME target is never compressed
        assert!(announced == nm.n);
    }
    kani::cover!(announced < nm.n + if WHICH == 3 { 2 } else { 0 }, "RDATA name was compressed");
}

// @funcs: Dname::{compose_rdata,rdlen,compose_len_rdata} under StaticCompressor, compose_prefixed
// @bound: DNAME whose target x.c' (symbolic octets) may share the suffix with a name already in the message, composed with its length prefix into StaticCompressor<FixedBufM<48>>: prefix = octets written, target uncompressed
// @covers: optional
// @tier: experimental
// @timeout: 7200
// @mem: 30
#[kani::proof]
#[kani::unwind(8)]
fn c05_len_prefix_under_compressor_dname() {
    len_prefix_under_compressor::<0>()
}

// @funcs: Ns/Cname::{compose_rdata,rdlen,compose_len_rdata} under StaticCompressor, compose_prefixed (back-patched length)
// @bound: as above for NS and CNAME (compressible types): prefix = octets written whether or not the name got compressed
// @tier: experimental
// @timeout: 7200
// @mem: 30
#[kani::proof]
#[kani::unwind(8)]
fn c05_len_prefix_under_compressor_ns() {
    len_prefix_under_compressor::<1>()
}

// @funcs: Mx::{compose_rdata,rdlen,compose_len_rdata} under StaticCompressor
// @bound: as above for MX (preference symbolic)
// @tier: experimental
// @timeout: 7200
// @mem: 30
#[kani::proof]
#[kani::unwind(8)]
fn c05_len_prefix_under_compressor_mx() {
    len_prefix_under_compressor::<3>()
}

// @funcs: Nsec3Salt::from_octets, OwnerHash::from_octets (one-octet length prefix on the wire)
// @bound: octet strings of every length 0..=300, arbitrary content: accepted exactly up to 255 octets (what the length octet can express)
#[kani::proof]
#[kani::unwind(4)]
fn c05_salt_and_hash_length_limits() {
    let buf: [u8; 300] = kani::any();
    let n: usize = kani::any();
    kani::assume(n <= 300);
    let s = Nsec3Salt::from_octets(&buf[..n]);
    let h = OwnerHash::from_octets(&buf[..n]);
    assert!(s.is_ok() == (n <= 255));
    assert!(h.is_ok() == (n <= 255));
    if let (Ok(s), Ok(h)) = (s, h) {
        assert!(s.as_slice().len() == n && h.as_slice().len() == n);
    }
    kani::cover!(n == 255, "maximal salt");
}

// @funcs: Txt::parse, Txt::as_flat_slice, Txt::len, Txt::iter (TxtIter::next), Txt::iter_charstrs
// @bound: every octet string of 0..=4 symbolic octets parsed as TXT RDATA (RDLENGTH 0 included, which the reader accepts): every read accessor of an accepted value is total - as_flat_slice is Some exactly for a single character string covering the data, the string iterator yields exactly the strings of the wire form
// @outside: longer data; text(), Display (heap / fmt)
#[kani::proof]
#[kani::unwind(8)]
fn c05_txt_parsed_value_is_usable() {
    let raw = Bytes::<4>::any();
    let mut p = Parser::from_ref(raw.s());
    if let Ok(v) = Txt::parse(&mut p) {
        assert!(p.remaining() == 0);
        let flat = v.as_flat_slice();
        let single = raw.n >= 1 && raw.d[0] as usize == raw.n - 1;
        assert!(flat.is_some() == single);
        if let Some(f) = flat {
            assert!(f.len() == raw.n - 1);
        }
        assert!(v.len() == raw.n);
        let mut pos = 0;
        let mut k = 0;
        for s in v.iter_charstrs() {
            assert!(pos < raw.n);
            assert!(s.len() == raw.d[pos] as usize);
            pos += s.len() + 1;
            k += 1;
        }
        assert!(pos == raw.n && k <= 4);
    }
    kani::cover!(raw.n == 0 && Txt::parse(&mut Parser::from_ref(raw.s())).is_ok(), "empty TXT RDATA accepted by the reader");
}

// @funcs: SvcParams::from_octets, SvcParams::check_slice, SvcbRdata::new, SvcbRdata::{compose_rdata,rdlen,compose_len_rdata,compose_canonical_rdata}
// @bound: SVCB values with any priority (alias mode 0 included), a one-label target with a symbolic octet and a parameter sequence of 0..=6 symbolic octets: the sequence is accepted <=> it consists of complete (key, length, value) entries with strictly ascending keys; the RDATA is priority || uncompressed target || the parameter octets verbatim, rdlen and the length prefix equal the octets written, the canonical form is identical (RFC 9460: the target is not lower-cased)
// @outside: parse side (SvcParams::parse after a ParsedName), typed parameter values, presentation format (SvcParams::scan cannot be compiled by kani-compiler 0.68)
#[kani::proof]
#[kani::unwind(14)]
fn c05_svcb_compose() {
    use domain::rdata::svcb::{SvcParams, Svcb};
    let prio: u16 = kani::any();
    let f = FlatName::any::<1, 0>();
    let d = Bytes::<6>::any();
    // reference: complete entries, ascending keys
    let mut pos = 0usize;
    let mut ok = true;
    let mut last: Option<u16> = None;
    let mut k = 0;
    while k < 2 && pos < d.n {
        if pos + 4 > d.n {
            ok = false;
            break;
        }
        let key = (d.d[pos] as u16) << 8 | d.d[pos + 1] as u16;
        let len = ((d.d[pos + 2] as usize) << 8) | d.d[pos + 3] as usize;
        if let Some(l) = last {
            if key <= l {
                ok = false;
                break;
            }
        }
        last = Some(key);
        if pos + 4 + len > d.n {
            ok = false;
            break;
        }
        pos += 4 + len;
        k += 1;
    }
    match SvcParams::from_octets(d.s()) {
        Ok(params) => {
            assert!(ok && pos == d.n);
            let v: Svcb<&[u8], Name<&[u8]>> = Svcb::new(prio, f.name(), params).unwrap();
            let (buf, cb) = compose_checks!(v);
            assert!(buf.len == 2 + f.n + d.n);
            assert!(buf.data[0] == (prio >> 8) as u8 && buf.data[1] == prio as u8);
            assert!(has(&buf.data, 2, &f.w[..f.n]));
            assert!(has(&buf.data, 2 + f.n, d.s()));
            assert!(has(&cb.data, 0, &buf.data[..buf.len]));
            kani::cover!(prio == 0 && d.n == 5, "alias mode with one parameter");
        }
        Err(_) => assert!(!ok),
    }
}
