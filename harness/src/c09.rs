//! C09 — snapshot isolation: the per-item version vector.
// @@prop: C09
// @@fs: zt
// @@timeout: 1200
use domain::zonetree::verif_hooks::{Version, Versioned};

/// Reference model: the value a reader pinned at `r` must see, given the
/// committed history (v1 -> x1, v2 -> x2 with v1 < v2 <= cur).
fn model_get(r: u32, v1: u32, x1: Option<u8>, v2: u32, x2: Option<u8>, n: usize) -> Option<u8> {
    // n committed entries (0..=2); versions are plain increasing numbers here
    if n >= 2 && v2 <= r {
        return x2;
    }
    if n >= 1 && v1 <= r {
        return x1;
    }
    None
}

// @funcs: Versioned::{new,update,remove,rollback,get}, Version::next, Version partial order (Serial)
// @bound: a committed history of exactly two entries at versions v1 < v2 <= cur < 2^31 (values symbolic, second entry possibly a removal marker), then 2 writer operations from {update(x), remove, rollback} at the writer's version w = cur+1, with a symbolic reader version r <= cur: every reader sees exactly what it saw before (isolation); the writer sees its own last write; after rollback every version sees the pre-state (abort invisible)
// @assume: versions below 2^31 so that serial order is a total order on the history (the window in which RFC 1982 comparison is defined)
// @outside: histories of more than 2 committed entries; real-thread schedules, the write mutex, ZoneVersions publication and walk() (not sequential code)
// @tier: experimental
// @timeout: 7200
// @mem: 40
#[kani::proof]
#[kani::unwind(6)]
fn c09_versioned_isolation_and_abort_h2() {
    isolation::<2, 2>()
}

// @funcs: Versioned::{new,update,remove,rollback,get}, Version::next
// @bound: as above with a committed history of exactly one entry and 2 writer operations
#[kani::proof]
#[kani::unwind(6)]
fn c09_versioned_isolation_and_abort_h1() {
    isolation::<1, 2>()
}

// @tier: experimental
// @timeout: 7200
// @mem: 40
// @funcs: Versioned::{new,update,remove,rollback,get}, Version::next
// @bound: as above with an empty history and 2 writer operations
#[kani::proof]
#[kani::unwind(6)]
fn c09_versioned_isolation_and_abort_h0() {
    isolation::<0, 2>()
}

fn isolation<const N: usize, const OPS: usize>() {
    let (v1, v2, cur): (u32, u32, u32) = (kani::any(), kani::any(), kani::any());
    kani::assume(v1 < v2 && v2 <= cur && cur < 0x7FFF_FFF0);
    let n: usize = N;
    let (x1, x2): (u8, Option<u8>) = (kani::any(), kani::any());
    let mut item = Versioned::<u8>::new();
    if n >= 1 {
        item.update(Version::verif_new(v1), x1);
    }
    if n >= 2 {
        match x2 {
            Some(x) => item.update(Version::verif_new(v2), x),
            None => item.remove(Version::verif_new(v2)),
        }
    }
    let r: u32 = kani::any();
    kani::assume(r <= cur);
    let want_r = model_get(r, v1, Some(x1), v2, x2, n);
    assert!(item.get(Version::verif_new(r)).copied() == want_r);
    let pre_len = item.verif_len();
    // writer at cur+1
    let w = Version::verif_new(cur).next();
    assert!(w.verif_into_int() == cur + 1);
    let mut own: Option<Option<u8>> = None; // what the writer wrote last, if anything
    let mut k = 0;
    while k < OPS {
        let op: u8 = kani::any();
        kani::assume(op < 4);
        match op {
            0 => {
                let x: u8 = kani::any();
                item.update(w, x);
                own = Some(Some(x));
            }
            1 => {
                item.remove(w);
                own = Some(None);
            }
            2 => {
                item.rollback(w);
                own = None;
            }
            _ => {}
        }
        // isolation: readers of committed versions are unaffected by the open version
        assert!(item.get(Version::verif_new(r)).copied() == want_r);
        // the writer (and readers after a commit of w) see the writer's last write
        let want_w = match own {
            Some(v) => v,
            None => model_get(cur, v1, Some(x1), v2, x2, n),
        };
        assert!(item.get(w).copied() == want_w);
        k += 1;
    }
    // abort: rolling back makes the open version invisible to everyone
    item.rollback(w);
    assert!(item.get(w).copied() == model_get(cur, v1, Some(x1), v2, x2, n));
    assert!(item.get(Version::verif_new(r)).copied() == want_r);
    assert!(item.verif_len() <= pre_len);
    kani::cover!(own == Some(None), "writer removed the item in its version");
}


// @funcs: Version::next, Version::partial_cmp / eq (derived over Serial)
// @bound: all 2^32 versions: the writer's version next() is strictly newer than the current one and than every reader version within the 2^31 window, and differs from both (full width, loop-free)
#[kani::proof]
fn c09_writer_version_is_newer_than_all_readers() {
    let cur: u32 = kani::any();
    let back: u32 = kani::any();
    kani::assume(back < 0x7FFF_FFFF);
    let c = Version::verif_new(cur);
    let w = c.next();
    let r = Version::verif_new(cur.wrapping_sub(back)); // a reader pinned up to 2^31-2 versions ago
    assert!(w > c && c < w && w != c);
    assert!(r <= c);
    assert!(r < w && w != r);
    assert!(w.verif_into_int() == cur.wrapping_add(1));
    kani::cover!(cur == u32::MAX, "version counter wraps");
}
