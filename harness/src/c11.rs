//! C11 — TSIG kernels that do not involve the MAC.
// @@prop: C11
// @@fs: core
// @@timeout: 600
use crate::refmodel::*;
use domain::rdata::tsig::Time48;
use octseq::parse::Parser;

// @funcs: Time48::from_u64, Time48::eq_fudged
// @bound: all 48-bit now/signed pairs and all 16-bit fudges (full width): in-window <=> |now - signed| <= fudge over the integers (no wrap at 0 or 2^48-1)
#[kani::proof]
fn c11_time_window_exact() {
    let now: u64 = kani::any();
    let signed: u64 = kani::any();
    let fudge: u16 = kani::any();
    kani::assume(now < (1 << 48) && signed < (1 << 48));
    let got = Time48::from_u64(now).eq_fudged(Time48::from_u64(signed), fudge as u64);
    let diff = if now >= signed { now - signed } else { signed - now };
    assert!(got == (diff <= fudge as u64));
    kani::cover!(got && now < signed, "signed slightly in the future accepted");
    kani::cover!(!got && now == 0, "window at time 0");
}

// @funcs: Time48::into_octets, Time48::parse, Time48::compose, u64::from
// @bound: all 48-bit values: parse(compose(t)) == t, octets are big-endian
#[kani::proof]
#[kani::unwind(8)]
fn c11_time48_wire_roundtrip() {
    let v: u64 = kani::any();
    kani::assume(v < (1 << 48));
    let t = Time48::from_u64(v);
    let o = t.into_octets();
    let mut want = [0u8; 6];
    let mut i = 0;
    while i < 6 {
        want[i] = ((v >> (8 * (5 - i))) & 0xFF) as u8;
        i += 1;
    }
    assert!(o == want);
    let mut buf = FixedBuf::<8> { data: [0; 8], len: 0 };
    t.compose(&mut buf).unwrap();
    assert!(buf.len == 6);
    let mut p = Parser::from_ref(&o[..]);
    let back = Time48::parse(&mut p).unwrap();
    assert!(u64::from(back) == v);
    assert!(back == t);
    assert!(p.remaining() == 0);
}

// @funcs: Time48::from_u64
// @bound: all u64 >= 2^48 are rejected (documented panic)
// @should_panic: true
#[kani::proof]
#[kani::should_panic]
fn c11_time48_rejects_wide_values() {
    let v: u64 = kani::any();
    kani::assume(v >= (1 << 48));
    let _ = Time48::from_u64(v);
}
