//! C12 — DNSSEC kernels that do not involve a signature primitive.
// @@prop: C12
// @@fs: core
// @@timeout: 900
use crate::refmodel::*;
use domain::base::iana::SecurityAlgorithm;
use domain::rdata::dnssec::Dnskey;

/// RFC 4034 Appendix B over the DNSKEY RDATA (flags, protocol, algorithm, key).
fn ref_key_tag(flags: u16, proto: u8, alg: u8, key: &[u8]) -> u16 {
    if alg == 1 {
        // Appendix B.1
        let n = key.len();
        if n > 2 {
            return ((key[n - 3] as u16) << 8) | key[n - 2] as u16;
        }
        return 0;
    }
    let mut rd = [0u8; 4 + 16];
    rd[0] = (flags >> 8) as u8;
    rd[1] = flags as u8;
    rd[2] = proto;
    rd[3] = alg;
    let mut i = 0;
    while i < key.len() {
        rd[4 + i] = key[i];
        i += 1;
    }
    let n = 4 + key.len();
    let mut ac: u32 = 0;
    let mut i = 0;
    while i < n {
        ac += if i & 1 == 1 { rd[i] as u32 } else { (rd[i] as u32) << 8 };
        i += 1;
    }
    ac += (ac >> 16) & 0xFFFF;
    (ac & 0xFFFF) as u16
}

fn key_tag_n<const N: usize>() {
    let flags: u16 = kani::any();
    let proto: u8 = kani::any();
    let alg: u8 = kani::any();
    let key: [u8; N] = kani::any();
    let n: usize = kani::any();
    kani::assume(n <= N);
    let k = Dnskey::new(flags, proto, SecurityAlgorithm::from_int(alg), &key[..n]).unwrap();
    assert!(k.key_tag() == ref_key_tag(flags, proto, alg, &key[..n]));
    kani::cover!(alg == 1 && n > 2, "RSAMD5 variant");
    kani::cover!(alg != 1 && n == N, "longest key");
}

// @funcs: Dnskey::new, Dnskey::key_tag
// @bound: all flags/protocol/algorithm octets, all keys of 0..=8 symbolic octets vs RFC 4034 Appendix B (incl. B.1 for algorithm 1)
// @outside: keys longer than the bound (the sum is a per-octet loop; overflow cannot occur below 2^16 octets)
#[kani::proof]
#[kani::unwind(22)]
fn c12_key_tag_matches_rfc4034_8() {
    key_tag_n::<8>()
}

// @tier: thorough
// @timeout: 3000
// @funcs: Dnskey::new, Dnskey::key_tag
// @bound: all keys of 0..=16 symbolic octets vs RFC 4034 Appendix B
#[kani::proof]
#[kani::unwind(22)]
fn c12_key_tag_matches_rfc4034_16() {
    key_tag_n::<16>()
}

use domain::base::name::{Name, ToName};

fn label_count<const L1: usize, const L2: usize, const L3: usize>() {
    // flat name with up to three non-root labels of concrete lengths (0 = absent), symbolic content
    let c: [u8; 6] = kani::any();
    let mut w = [0u8; 12];
    let mut n = 0;
    let mut labels = 0u8;
    let lens = [L1, L2, L3];
    let mut k = 0;
    let mut ci = 0;
    while k < 3 {
        if lens[k] > 0 {
            w[n] = lens[k] as u8;
            n += 1;
            let mut i = 0;
            while i < lens[k] {
                w[n] = c[ci];
                ci += 1;
                n += 1;
                i += 1;
            }
            labels += 1;
        }
        k += 1;
    }
    w[n] = 0;
    n += 1;
    let name = Name::from_octets(&w[..n]).unwrap();
    let wildcard = L1 == 1 && c[0] == b'*';
    let want = if wildcard { labels - 1 } else { labels };
    assert!(name.rrsig_label_count() == want);
    kani::cover!(wildcard, "wildcard owner");
}

// @funcs: ToName::rrsig_label_count, Label::is_wildcard, NameIter
// @bound: flat names with label structure (1,1,2) and symbolic content (first label may be '*'): RRSIG Labels = number of labels without root and without a leading asterisk label (RFC 4034 3.1.3)
#[kani::proof]
#[kani::unwind(8)]
fn c12_rrsig_label_count_112() {
    label_count::<1, 1, 2>()
}

// @funcs: ToName::rrsig_label_count
// @bound: label structure (1) - i.e. "*." or "x." - and the root name
#[kani::proof]
#[kani::unwind(8)]
fn c12_rrsig_label_count_1_and_root() {
    label_count::<1, 0, 0>();
    let root = Name::<&[u8]>::from_octets(&[0u8][..]).unwrap();
    assert!(root.rrsig_label_count() == 0);
}
