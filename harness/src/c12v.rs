//! C12 — signed-data construction on the validator side (needs the validator feature set).
// @@prop: C12
// @@fs: val
// @@timeout: 1800
use crate::c05::FlatName;
use crate::refmodel::*;
use domain::base::iana::{Class, SecurityAlgorithm};
use domain::base::{Record, Rtype, Ttl};
use domain::dnssec::validator::base::RrsigExt;
use domain::rdata::dnssec::{Rrsig, Timestamp};
use domain::rdata::A;

/// RFC 4034 3.1.8.1 / RFC 4035 5.3.2 reference: RRSIG RDATA without the
/// signature, signer name lower-cased, then each RR in canonical order as
/// owner (lower-cased; "*." + rightmost `labels` labels if the RRSIG Labels
/// field is smaller than the owner's label count) type class OrigTTL rdlen rdata.
fn signed_data_one_record<const L1: usize, const L2: usize>(labels_field: u8) {
    let owner = FlatName::any::<L1, L2>();
    let signer = FlatName::any::<1, 0>();
    let (tc, alg, kt, cl): (u16, u8, u16, u16) = (kani::any(), kani::any(), kani::any(), kani::any());
    let (ottl, exp, inc, ttl): (u32, u32, u32, u32) = (kani::any(), kani::any(), kani::any(), kani::any());
    let addr: [u8; 4] = kani::any();
    let nlabels: u8 = if L2 > 0 { 2 } else { 1 };
    kani::assume(labels_field <= nlabels);
    let sig = Rrsig::new(
        Rtype::from_int(tc),
        SecurityAlgorithm::from_int(alg),
        labels_field,
        Ttl::from_secs(ottl),
        Timestamp::from(exp),
        Timestamp::from(inc),
        kt,
        signer.name(),
        &[][..],
    )
    .unwrap();
    // the resolver-side view: current TTL differs from the original one
    let mut recs = [Record::new(owner.name(), Class::from_int(cl), Ttl::from_secs(ttl), A::from_octets(addr[0], addr[1], addr[2], addr[3]))];
    let mut buf = FixedBufM::<64> { data: [0; 64], len: 0 };
    sig.signed_data(&mut buf, &mut recs).unwrap();
    // ---- reference
    let mut exp_b = [0u8; 64];
    let mut o = 0;
    exp_b[0] = (tc >> 8) as u8;
    exp_b[1] = tc as u8;
    exp_b[2] = alg;
    exp_b[3] = labels_field;
    let put32 = |b: &mut [u8; 64], at: usize, v: u32| {
        b[at] = (v >> 24) as u8;
        b[at + 1] = (v >> 16) as u8;
        b[at + 2] = (v >> 8) as u8;
        b[at + 3] = v as u8;
    };
    put32(&mut exp_b, 4, ottl);
    put32(&mut exp_b, 8, exp);
    put32(&mut exp_b, 12, inc);
    exp_b[16] = (kt >> 8) as u8;
    exp_b[17] = kt as u8;
    o = 18;
    let ls = signer.lower();
    let mut i = 0;
    while i < signer.n {
        exp_b[o + i] = ls[i];
        i += 1;
    }
    o += signer.n;
    // owner
    let lo = owner.lower();
    if labels_field < nlabels {
        exp_b[o] = 1;
        exp_b[o + 1] = b'*';
        o += 2;
        // skip the leftmost (nlabels - labels_field) labels
        let mut skip = 0usize;
        let mut k = 0;
        while k < (nlabels - labels_field) as usize {
            skip += lo[skip] as usize + 1;
            k += 1;
        }
        let mut i = skip;
        while i < owner.n {
            exp_b[o] = lo[i];
            o += 1;
            i += 1;
        }
    } else {
        let mut i = 0;
        while i < owner.n {
            exp_b[o] = lo[i];
            o += 1;
            i += 1;
        }
    }
    exp_b[o] = 0;
    exp_b[o + 1] = 1; // type A
    exp_b[o + 2] = (cl >> 8) as u8;
    exp_b[o + 3] = cl as u8;
    put32(&mut exp_b, o + 4, ottl); // the ORIGINAL ttl, not the record's
    exp_b[o + 8] = 0;
    exp_b[o + 9] = 4;
    exp_b[o + 10] = addr[0];
    exp_b[o + 11] = addr[1];
    exp_b[o + 12] = addr[2];
    exp_b[o + 13] = addr[3];
    o += 14;
    assert!(buf.len == o);
    let idx: usize = kani::any();
    kani::assume(idx < 64);
    if idx < o {
        assert!(buf.data[idx] == exp_b[idx]);
    }
}

// @funcs: <Rrsig as RrsigExt>::signed_data, Name::compose_canonical, iter_suffixes, Record accessors, compose_canonical_len_rdata
// @bound: one A record under a two-label owner (structure (1,1), symbolic content incl. upper case), one-label signer, all RRSIG fixed fields symbolic, Labels field = 2 (no wildcard): signed octets = RFC 4034 3.1.8.1 reference with the ORIGINAL TTL and lower-cased names
// @outside: RRsets of several records (ordering), other RDATA types, the signer side (sign_sorted_rrset_in), any signature
#[kani::proof]
#[kani::unwind(12)]
fn c12_signed_data_plain_owner() {
    signed_data_one_record::<1, 1>(2)
}

// @funcs: <Rrsig as RrsigExt>::signed_data (wildcard reconstruction branch)
// @bound: as above with Labels field = 1 < 2 owner labels: owner is rebuilt as "*." + the rightmost label, lower-cased (RFC 4035 5.3.2)
#[kani::proof]
#[kani::unwind(12)]
fn c12_signed_data_wildcard_expanded_owner() {
    signed_data_one_record::<1, 1>(1)
}
