//! C13 — NSEC type bitmap builder.
// @@prop: C13
// @@fs: core
// @@timeout: 900
use crate::refmodel::*;
use domain::base::iana::Rtype;
use domain::rdata::dnssec::{RtypeBitmap, RtypeBitmapBuilder};

/// RFC 4034 4.1.2 well-formedness: windows strictly ascending, length
/// 1..=32, last octet of each window non-zero.
fn bitmap_wellformed(d: &[u8], maxwin: usize) -> bool {
    let mut pos = 0;
    let mut last: i32 = -1;
    let mut w = 0;
    while w < maxwin {
        if pos == d.len() {
            return true;
        }
        if pos + 2 > d.len() {
            return false;
        }
        let win = d[pos] as i32;
        let len = d[pos + 1] as usize;
        if win <= last || len == 0 || len > 32 || pos + 2 + len > d.len() {
            return false;
        }
        if d[pos + 2 + len - 1] == 0 {
            return false;
        }
        last = win;
        pos += 2 + len;
        w += 1;
    }
    pos == d.len()
}

fn ref_contains(d: &[u8], t: u16, maxwin: usize) -> bool {
    let (win, oct, mask) = ((t >> 8) as u8, ((t & 0xFF) >> 3) as usize, 0x80u8 >> (t & 7));
    let mut pos = 0;
    let mut w = 0;
    while w < maxwin && pos + 2 <= d.len() {
        let len = d[pos + 1] as usize;
        if d[pos] == win {
            return oct < len && d[pos + 2 + oct] & mask != 0;
        }
        pos += 2 + len;
        w += 1;
    }
    false
}

fn builder_n<const K: usize, const CAP: usize>(same_window: bool) {
    let ts: [u16; K] = kani::any();
    if same_window && K == 2 {
        kani::assume(ts[0] >> 8 == ts[K - 1] >> 8);
    }
    let k: usize = kani::any();
    kani::assume(k <= K);
    let mut b = RtypeBitmapBuilder::<FixedBufM<CAP>>::new();
    let mut i = 0;
    while i < k {
        b.add(Rtype::from_int(ts[i])).unwrap();
        i += 1;
    }
    let bm = b.finalize();
    let d = bm.as_slice();
    // wire form follows RFC 4034 4.1.2 and is accepted by the library's own validator
    assert!(bitmap_wellformed(d, K + 1));
    assert!(RtypeBitmap::from_octets(d).is_ok());
    // membership: exactly the added types
    let probe: u16 = kani::any();
    let mut added = false;
    let mut i = 0;
    while i < k {
        added |= ts[i] == probe;
        i += 1;
    }
    assert!(bm.contains(Rtype::from_int(probe)) == added);
    assert!(ref_contains(d, probe, K + 1) == added);
    assert!(d.is_empty() == (k == 0));
    kani::cover!(k == K && added, "probe hits an added type");
    kani::cover!(k == K && !added && bm.contains(Rtype::from_int(probe ^ 1)), "probe next to an added type");
}

// @funcs: RtypeBitmapBuilder::{new,add,get_block,finalize}, RtypeBitmap::{contains,from_octets}, split_rtype (Builder = FixedBuf)
// @bound: 0..=1 fully symbolic u16 type, any probe type: contains(probe) <=> probe was added; wire form well-formed per RFC 4034 4.1.2
#[kani::proof]
#[kani::unwind(6)]
fn c13_bitmap_builder_1() {
    builder_n::<1, 36>(false)
}

// @tier: thorough
// @timeout: 3000
// @funcs: RtypeBitmapBuilder::{new,add,get_block,finalize}, RtypeBitmap::{contains,from_octets}
// @bound: two fully symbolic u16 types falling into the same window (any window), any probe
// @assume: both types share the high octet (different windows: thorough tier)
#[kani::proof]
#[kani::unwind(6)]
fn c13_bitmap_builder_2_same_window() {
    builder_n::<2, 72>(true)
}

// @tier: thorough
// @timeout: 6000
// @funcs: RtypeBitmapBuilder::{new,add,get_block,finalize}, RtypeBitmap::{contains,from_octets}
// @bound: 0..=2 fully symbolic u16 types added in any order (window insertion before/after), any probe type
// @outside: more than 3 distinct windows per bitmap
#[kani::proof]
#[kani::unwind(6)]
fn c13_bitmap_builder_2() {
    builder_n::<2, 72>(false)
}

// @tier: experimental
// @timeout: 6000
// @funcs: RtypeBitmapBuilder::{new,add,get_block,finalize}, RtypeBitmap::{contains,from_octets}
// @bound: 0..=3 fully symbolic u16 types
#[kani::proof]
#[kani::unwind(10)]
fn c13_bitmap_builder_3() {
    builder_n::<3, 104>(false)
}

// @tier: experimental
// @timeout: 6000
// @mem: 24
// @funcs: RtypeBitmap::iter, RtypeBitmapIter::next
// @bound: bitmap built from 0..=2 symbolic types (any window, bit position 0..11 within the window): iter() yields exactly the added set in strictly ascending order
// @assume: low octet of each type < 12 (the iterator scans bit by bit; 256-bit windows need unwind > 256)
#[kani::proof]
#[kani::unwind(28)]
fn c13_bitmap_iter_sorted_exact() {
    let ts: [u16; 2] = kani::any();
    let k: usize = kani::any();
    kani::assume(k <= 2);
    kani::assume(ts[0] & 0xFF < 12 && ts[1] & 0xFF < 12);
    let mut b = RtypeBitmapBuilder::<FixedBufM<72>>::new();
    let mut i = 0;
    while i < k {
        b.add(Rtype::from_int(ts[i])).unwrap();
        i += 1;
    }
    let bm = b.finalize();
    let mut it = bm.iter();
    let distinct = if k == 2 && ts[0] != ts[1] { 2 } else { k.min(1) };
    let first = it.next();
    let second = it.next();
    let third = it.next();
    assert!(third.is_none());
    match distinct {
        0 => assert!(first.is_none()),
        1 => {
            assert!(first == Some(Rtype::from_int(ts[0])));
            assert!(second.is_none());
        }
        _ => {
            let (lo, hi) = if ts[0] < ts[1] { (ts[0], ts[1]) } else { (ts[1], ts[0]) };
            assert!(first == Some(Rtype::from_int(lo)));
            assert!(second == Some(Rtype::from_int(hi)));
        }
    }
    kani::cover!(distinct == 2, "two distinct types");
}


// @funcs: RtypeBitmap::{from_octets,contains}, read_window, split_rtype
// @bound: every well-formed two-window bitmap whose windows hold 1..=2 octets each (window numbers, lengths and bits symbolic), any probe type: contains(probe) equals an independent RFC 4034 4.1.2 reader
#[kani::proof]
#[kani::unwind(5)]
fn c13_bitmap_contains_on_wire() {
    let buf: [u8; 8] = kani::any();
    let l1 = buf[1] as usize;
    kani::assume(l1 >= 1 && l1 <= 2);
    let second: bool = kani::any();
    let mut n = 2 + l1;
    if second {
        let l2 = buf[n + 1] as usize;
        kani::assume(l2 >= 1 && l2 <= 2);
        n += 2 + l2;
    }
    let bm = match RtypeBitmap::from_octets(&buf[..n]) {
        Ok(b) => b,
        Err(_) => panic!("well-formed window sequence rejected"),
    };
    let probe: u16 = kani::any();
    let want = ref_contains(&buf[..n], probe, 3);
    assert!(bm.contains(Rtype::from_int(probe)) == want);
    kani::cover!(second && want && (probe >> 8) as u8 == buf[2 + l1], "probe found in the second window");
}
