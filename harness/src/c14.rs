//! C14 — validator: denial-of-existence range predicates and hostile labels.
// @@prop: C14
// @@fs: val
// @@timeout: 1800
use crate::refmodel::*;
use domain::base::name::Label;
use domain::dnssec::validator::verif_hooks::{nsec3_in_range, nsec3_label_to_hash};
use domain::rdata::nsec3::OwnerHash;

// @tier: thorough
// @timeout: 7200
// @mem: 40
// @funcs: nsec3_label_to_hash, OwnerHash::from_str, base32::decode_hex, base32::Decoder
// @bound: every NSEC3 owner label of exactly 2 fully symbolic octets (attacker-controlled): never panics; succeeds exactly for well-formed unpadded base32hex text and then yields the decoded octets
// @stub: core::result::unwrap_failed -> panic without Debug-formatting the error (the panic itself is kept)
// @outside: labels longer than 4 octets (a real hash label is 32 characters; the decoder's state is position mod 8)
#[kani::proof]
#[kani::unwind(4)]
#[kani::stub(core::result::unwrap_failed, crate::stubs::unwrap_failed)]
fn c14_nsec3_owner_label_never_panics_2() {
    owner_label::<2>()
}

// @tier: thorough
// @timeout: 7200
// @mem: 40
// @funcs: nsec3_label_to_hash, OwnerHash::from_str, base32::decode_hex
// @bound: every NSEC3 owner label of exactly 1 symbolic octet
#[kani::proof]
#[kani::unwind(3)]
#[kani::stub(core::result::unwrap_failed, crate::stubs::unwrap_failed)]
fn c14_nsec3_owner_label_never_panics_1() {
    owner_label::<1>()
}

// @tier: thorough
// @timeout: 7200
// @mem: 40
// @funcs: nsec3_label_to_hash, OwnerHash::from_str, base32::decode_hex
// @bound: every NSEC3 owner label of exactly 4 symbolic octets
#[kani::proof]
#[kani::unwind(6)]
#[kani::stub(core::result::unwrap_failed, crate::stubs::unwrap_failed)]
fn c14_nsec3_owner_label_never_panics_4() {
    owner_label::<4>()
}

fn owner_label<const N: usize>() {
    let b: [u8; N] = kani::any();
    let mut buf = [0u8; 4];
    let mut i = 0;
    while i < N {
        buf[i] = b[i];
        i += 1;
    }
    let n: usize = N;
    let label = Label::from_slice(&buf[..n]).unwrap();
    let r = nsec3_label_to_hash(label);
    // reference: ASCII base32hex text (any non-ASCII octet cannot be base32)
    let mut chars = ['\0'; 4];
    let mut ascii = true;
    let mut i = 0;
    while i < n {
        if buf[i] >= 0x80 {
            ascii = false;
        }
        chars[i] = buf[i] as char;
        i += 1;
    }
    let mut want = [0u8; MAXD];
    let w = if ascii { ref_decode(&chars, n, 5, &mut want) } else { None };
    match r {
        Ok(h) => {
            let s: &[u8] = h.as_slice();
            assert!(w == Some(s.len()));
            let mut j = 0;
            while j < s.len() {
                assert!(s[j] == want[j]);
                j += 1;
            }
        }
        Err(_) => assert!(w.is_none()),
    }
    kani::cover!(w.is_none(), "hostile label rejected");
}

// @funcs: nsec3_in_range, OwnerHash ordering
// @bound: all triples of hashes of exactly 2 symbolic octets: target is covered <=> it lies strictly between owner and next in octet order, where the last NSEC3 of the chain (next <= owner) wraps around
#[kani::proof]
#[kani::unwind(6)]
fn c14_nsec3_in_range_is_interval_with_wraparound() {
    let (t, o, n): ([u8; 2], [u8; 2], [u8; 2]) = (kani::any(), kani::any(), kani::any());
    let th = OwnerHash::from_octets(&t[..]).unwrap();
    let oh = OwnerHash::from_octets(&o[..]).unwrap();
    let nh = OwnerHash::from_octets(&n[..]).unwrap();
    let (tv, ov, nv) = (u16::from_be_bytes(t), u16::from_be_bytes(o), u16::from_be_bytes(n));
    let want = if ov < nv { ov < tv && tv < nv } else { ov < tv || tv < nv };
    assert!(nsec3_in_range(&th, &oh, &nh) == want);
    kani::cover!(want && ov >= nv, "covered by the wrap-around record");
}


use crate::c05::FlatName;
use domain::base::name::Name;
use domain::dnssec::validator::verif_hooks::nsec_in_range;

// @funcs: nsec_in_range, <Name as PartialOrd> (canonical order)
// @bound: target, owner and next = one-label names with a symbolic octet each (stored as Name<Bytes> as the validator does): covered <=> target lies strictly between owner and next in canonical (case-insensitive) order, the last NSEC of the chain (next <= owner) covering everything after owner
#[kani::proof]
#[kani::unwind(8)]
fn c14_nsec_in_range_is_interval_with_wraparound() {
    let (ft, fo, fnx) = (FlatName::any::<1, 0>(), FlatName::any::<1, 0>(), FlatName::any::<1, 0>());
    let t: Name<bytes::Bytes> = Name::from_octets(bytes::Bytes::copy_from_slice(&ft.w[..ft.n])).unwrap();
    let o: Name<bytes::Bytes> = Name::from_octets(bytes::Bytes::copy_from_slice(&fo.w[..fo.n])).unwrap();
    let nx = fnx.name();
    let (tv, ov, nv) = (lc(ft.w[1]), lc(fo.w[1]), lc(fnx.w[1]));
    let want = if ov < nv { tv > ov && tv < nv } else { tv > ov };
    assert!(nsec_in_range(&t, &o, &nx) == want);
    core::mem::forget(t);
    core::mem::forget(o);
    kani::cover!(want && ov >= nv, "covered by the last NSEC of the chain");
}
