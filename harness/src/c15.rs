//! C15 — client transports: the request/response demultiplexing table.
// @@prop: C15
// @@fs: net
// @@timeout: 1200
use domain::net::client::stream::verif_hooks::QueriesHook;

const L: usize = 4;

struct Pre {
    q: QueriesHook<u8>,
    slots: [Option<u8>; L],
    count: usize,
    curr: usize,
}

/// Arbitrary table state satisfying the representation invariant: `count` =
/// number of occupied slots, every slot below `curr` is occupied, curr <= len.
fn pre_state() -> Pre {
    let slots: [Option<u8>; L] = kani::any();
    let mut v = Vec::with_capacity(L + 2);
    let mut count = 0;
    let mut first_free = L;
    let mut i = 0;
    while i < L {
        if slots[i].is_some() {
            count += 1;
        } else if first_free == L {
            first_free = i;
        }
        v.push(slots[i]);
        i += 1;
    }
    let curr: usize = kani::any();
    kani::assume(curr <= first_free);
    Pre { q: QueriesHook::from_parts(count, curr, v), slots, count, curr }
}

fn invariant(q: &QueriesHook<u8>) -> bool {
    let (count, curr, vec) = q.parts();
    let mut n = 0;
    let mut i = 0;
    while i < vec.len() {
        if vec[i].is_some() {
            n += 1;
        } else if i < curr {
            return false;
        }
        i += 1;
    }
    n == count && curr <= vec.len()
}

// @funcs: Queries::insert (via hook)
// @bound: one insert into every table state with 4 slots (any occupancy, any stored values, any legal curr): the returned ID names a slot that was free, now holds exactly the inserted request, no other slot changed, count and curr stay consistent; histories of any length follow by induction over the invariant
// @assume: pre-state satisfies the representation invariant (count = occupied slots, all slots below curr occupied)
// @outside: tables with more than 4 slots; everything async (timeouts, retries, connection state machine, TC fallback)
#[kani::proof]
#[kani::unwind(8)]
fn c15_queries_insert_never_reuses_a_live_id() {
    let mut p = pre_state();
    let req: u8 = kani::any();
    match p.q.insert(req) {
        Ok(id) => {
            let id = id as usize;
            assert!(id >= L || p.slots[id].is_none());
            let (count, _curr, vec) = p.q.parts();
            assert!(vec[id] == Some(req));
            assert!(count == p.count + 1);
            let j: usize = kani::any();
            if j < L && j != id {
                assert!(vec[j] == p.slots[j]);
            }
            assert!(vec.len() == if id >= L { L + 1 } else { L });
        }
        Err(_) => panic!("insert refused although the table is nearly empty"),
    }
    assert!(invariant(&p.q));
    kani::cover!(p.count == L, "table full: appended");
    kani::cover!(p.count < L && p.curr == 0, "free slot found by search");
}

// @funcs: Queries::try_remove (via hook)
// @bound: one try_remove of any u16 ID from every 4-slot table state: returns exactly what is stored under that ID (None for free or out-of-range IDs), frees only that slot, keeps count/curr consistent
// @assume: pre-state invariant
#[kani::proof]
#[kani::unwind(8)]
fn c15_queries_try_remove_returns_own_request() {
    let mut p = pre_state();
    let id: u16 = kani::any();
    let got = p.q.try_remove(id);
    let want = if (id as usize) < L { p.slots[id as usize] } else { None };
    assert!(got == want);
    let (count, _curr, vec) = p.q.parts();
    assert!(count == p.count - got.is_some() as usize);
    let j: usize = kani::any();
    if j < L {
        if j == id as usize {
            assert!(vec[j].is_none());
        } else {
            assert!(vec[j] == p.slots[j]);
        }
    }
    assert!(invariant(&p.q));
    // exactly once: a second removal of the same ID yields nothing
    assert!(p.q.try_remove(id).is_none());
    kani::cover!(got.is_some(), "live request removed");
}

// @funcs: Queries::insert_at, Queries::is_empty (via hook)
// @bound: insert_at into any free slot of a 4-slot table (the documented precondition), then is_empty
// @assume: pre-state invariant; target slot is free (documented precondition of insert_at)
#[kani::proof]
#[kani::unwind(8)]
fn c15_queries_insert_at_free_slot() {
    let mut p = pre_state();
    let id: u16 = kani::any();
    kani::assume((id as usize) < L && p.slots[id as usize].is_none());
    let req: u8 = kani::any();
    p.q.insert_at(id, req);
    let (count, _curr, vec) = p.q.parts();
    assert!(vec[id as usize] == Some(req) && count == p.count + 1);
    assert!(invariant(&p.q));
    assert!(!p.q.is_empty());
    assert!(p.q.try_remove(id) == Some(req));
}
