//! C17 — RFC 1982 serial arithmetic, full 32/64-bit width, no loops.
// @@prop: C17
// @@fs: core
// @@timeout: 120
use core::cmp::Ordering;
use domain::base::Serial;

fn model_cmp(a: u32, b: u32) -> Option<Ordering> {
    // RFC 1982 section 3.2, written over mathematical integers (u64)
    let (i1, i2) = (a as u64, b as u64);
    const H: u64 = 1 << 31;
    if i1 == i2 {
        Some(Ordering::Equal)
    } else if (i1 < i2 && i2 - i1 < H) || (i1 > i2 && i1 - i2 > H) {
        Some(Ordering::Less)
    } else if (i1 < i2 && i2 - i1 > H) || (i1 > i2 && i1 - i2 < H) {
        Some(Ordering::Greater)
    } else {
        None
    }
}

// @funcs: Serial::add, Serial::partial_cmp, derived lt/gt
// @bound: all 2^32 serials x all addends 1..=2^31-1 (full width, loop-free)
#[kani::proof]
fn c17_add_strictly_greater() {
    let s: u32 = kani::any();
    let n: u32 = kani::any();
    kani::assume(n >= 1 && n <= 0x7FFF_FFFF);
    let t = Serial(s).add(n);
    assert!(t.into_int() as u64 == (s as u64 + n as u64) % (1u64 << 32));
    assert!(t > Serial(s));
    assert!(Serial(s) < t);
    assert!(Serial(s).partial_cmp(&t) == Some(Ordering::Less));
    assert!(t.partial_cmp(&Serial(s)) == Some(Ordering::Greater));
    kani::cover!(t.into_int() < s, "wraps");
}

// @funcs: Serial::add, Serial::eq
// @bound: all 2^32 serials
#[kani::proof]
fn c17_add_zero_identity() {
    let s: u32 = kani::any();
    assert!(Serial(s).add(0) == Serial(s));
}

// @funcs: Serial::add
// @bound: all serials x all addends > 2^31-1; harness is should_panic
// @should_panic: true
#[kani::proof]
#[kani::should_panic]
fn c17_add_too_much_panics() {
    let s: u32 = kani::any();
    let n: u32 = kani::any();
    kani::assume(n > 0x7FFF_FFFF);
    let _ = Serial(s).add(n);
}

// @funcs: Serial::partial_cmp, Serial::eq
// @bound: all 2^64 pairs vs RFC 1982 3.2 written over u64
#[kani::proof]
fn c17_cmp_matches_rfc1982() {
    let a: u32 = kani::any();
    let b: u32 = kani::any();
    let got = Serial(a).partial_cmp(&Serial(b));
    assert!(got == model_cmp(a, b));
    // antisymmetry
    let rev = Serial(b).partial_cmp(&Serial(a));
    assert!(rev == got.map(Ordering::reverse));
    // undefined exactly at distance 2^31
    assert!(got.is_none() == (a.wrapping_sub(b) == 0x8000_0000));
    // consistency with ==
    assert!((Serial(a) == Serial(b)) == (got == Some(Ordering::Equal)));
    assert!((Serial(a) == Serial(b)) == (a == b));
    kani::cover!(got.is_none(), "undefined pair reachable");
    kani::cover!(got == Some(Ordering::Less) && a > b, "less across wrap");
}

// @funcs: Serial::partial_cmp, Serial::add
// @bound: all 2^96 (a,b,k) triples
#[kani::proof]
fn c17_cmp_translation_invariant() {
    let a: u32 = kani::any();
    let b: u32 = kani::any();
    let k: u32 = kani::any();
    let x = Serial(a).partial_cmp(&Serial(b));
    let y = Serial(a.wrapping_add(k)).partial_cmp(&Serial(b.wrapping_add(k)));
    assert!(x == y);
    // and through the library's own add for legal addends
    if k <= 0x7FFF_FFFF {
        let z = Serial(a).add(k).partial_cmp(&Serial(b).add(k));
        assert!(x == z);
    }
}

// @funcs: Serial::partial_cmp and derived <,>,<=,>=
// @bound: all 2^64 pairs
#[kani::proof]
fn c17_derived_operators_consistent() {
    let a: u32 = kani::any();
    let b: u32 = kani::any();
    let (sa, sb) = (Serial(a), Serial(b));
    let c = sa.partial_cmp(&sb);
    assert!((sa < sb) == (c == Some(Ordering::Less)));
    assert!((sa > sb) == (c == Some(Ordering::Greater)));
    assert!((sa <= sb) == (c == Some(Ordering::Less) || c == Some(Ordering::Equal)));
    assert!((sa >= sb) == (c == Some(Ordering::Greater) || c == Some(Ordering::Equal)));
    assert!(!(sa < sb && sb < sa));
}

// @funcs: Timestamp::{from(u32),into_int,partial_cmp,eq}, Soa::serial
// @bound: all 2^64 pairs: signature timestamps compare exactly like RFC 1982 serials (undefined at distance 2^31, antisymmetric)
#[kani::proof]
fn c17_timestamp_follows_serial_arithmetic() {
    use domain::rdata::dnssec::Timestamp;
    let a: u32 = kani::any();
    let b: u32 = kani::any();
    let (ta, tb) = (Timestamp::from(a), Timestamp::from(b));
    assert!(ta.into_int() == a);
    let got = ta.partial_cmp(&tb);
    assert!(got == model_cmp(a, b));
    assert!(tb.partial_cmp(&ta) == got.map(Ordering::reverse));
    assert!((ta == tb) == (a == b));
    assert!((ta < tb) == (got == Some(Ordering::Less)));
    assert!((ta > tb) == (got == Some(Ordering::Greater)));
    kani::cover!(got.is_none(), "undefined pair reachable");
}
