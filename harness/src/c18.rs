//! C18 — Base16 / Base32hex / Base64 codecs.
// @@prop: C18
// @@fs: core
// @@timeout: 900
use crate::refmodel::*;
use domain::utils::{base16, base32, base64};
use octseq::array::Array;

// ---------------------------------------------------------------- encoders

macro_rules! encode_harness {
    ($name:ident, $disp:path, $k:expr, $maxn:expr, $unw:expr) => {
        #[kani::proof]
        #[kani::unwind($unw)]
        fn $name() {
            let data: [u8; $maxn] = kani::any();
            let n: usize = kani::any();
            kani::assume(n <= $maxn);
            let mut sink = CharSink::<MAXD>::new();
            $disp(&data[..n], &mut sink).unwrap();
            let mut want = ['\0'; MAXD];
            let wn = ref_encode(&data, n, $k, &mut want);
            assert!(!sink.overflow);
            assert!(sink.len == wn);
            let mut i = 0;
            while i < wn {
                assert!(sink.buf[i] == want[i]);
                i += 1;
            }
            kani::cover!(n == $maxn, "longest input reachable");
        }
    };
}

// @funcs: base64::display
// @bound: every octet string of 0..=6 octets; output compared char by char with an independent RFC 4648 bit-level encoder
// @outside: octet strings longer than the bound (the encoder is a per-chunk loop whose only state is the chunk)
encode_harness!(c18_b64_encode_matches_rfc4648, base64::display, 6, 6, 10);
// @funcs: base32::display_hex
// @bound: every octet string of 0..=10 octets vs independent RFC 4648 base32hex encoder (unpadded, as the library documents)
// @outside: octet strings longer than the bound (the encoder is a per-chunk loop whose only state is the chunk)
encode_harness!(c18_b32_encode_matches_rfc4648, base32::display_hex, 5, 10, 18);
// @funcs: base16::display
// @bound: every octet string of 0..=3 octets vs independent encoder (each octet is encoded on its own)
// @outside: octet strings longer than the bound (the encoder is a per-chunk loop whose only state is the chunk)
encode_harness!(c18_b16_encode_matches_rfc4648, base16::display, 4, 3, 8);

// --------------------------------------------------------- decoder machines

macro_rules! decode_harness {
    ($name:ident, $dec:ty, $new:ident, $k:expr, $maxc:expr, $cap:expr, $unw:expr, $stop:expr) => {
        #[kani::proof]
        #[kani::unwind($unw)]
        fn $name() {
            let chars: [char; $maxc] = kani::any();
            let n: usize = kani::any();
            kani::assume(n <= $maxc);
            let mut dec = <$dec>::$new();
            let mut errored = false;
            let mut i = 0;
            while i < n {
                if dec.push(chars[i]).is_err() {
                    errored = true;
                    if $stop {
                        break;
                    }
                }
                i += 1;
            }
            let mut want = [0u8; MAXD];
            let w = ref_decode(&chars, n, $k, &mut want);
            if $stop && errored {
                // ill-formed prefix => whole text ill-formed
                assert!(w.is_none());
            } else {
                let got = dec.finalize();
                match (got, w) {
                    (Ok(octs), Some(wn)) => {
                        let s: &[u8] = octs.as_ref();
                        assert!(s.len() == wn);
                        let mut j = 0;
                        while j < wn {
                            assert!(s[j] == want[j]);
                            j += 1;
                        }
                        assert!(!errored);
                        kani::cover!(wn == ($maxc * $k) / 8, "longest accepted text reachable");
                    }
                    (Err(_), None) => {}
                    (Ok(_), None) => panic!("decoder accepted ill-formed text"),
                    (Err(_), Some(_)) => panic!("decoder rejected well-formed text"),
                }
            }
            kani::cover!(errored, "error path reachable");
        }
    };
}

// @funcs: base64::Decoder<FixedBuf<8>>::{new,push,finalize} (Builder = harness-local FixedBuf: element-wise append)
// @bound: every sequence of 0..=8 chars (full char range), stop at first push error (what decode() does); accept <=> reference well-formed, octets equal
// @outside: longer inputs (decoder state is (buf, next mod group, padding flag), all values of which are reached within the bound); non-zero trailing bits are treated as don't-care (RFC 4648 3.5)
decode_harness!(c18_b64_decode_stop, base64::Decoder<FixedBuf<8>>, new, 6, 8, 8, 10, true);
// @funcs: base64::Decoder<FixedBuf<8>>::{new,push,finalize} (Builder = harness-local FixedBuf: element-wise append)
// @bound: every sequence of 0..=8 chars, pushing on after errors (documented as allowed): no panic, final verdict = reference verdict on the whole text
// @outside: longer inputs (decoder state is (buf, next mod group, padding flag), all values of which are reached within the bound); non-zero trailing bits are treated as don't-care (RFC 4648 3.5)
decode_harness!(c18_b64_decode_cont, base64::Decoder<FixedBuf<8>>, new, 6, 8, 8, 10, false);
// @funcs: base32::Decoder<FixedBuf<8>>::{new_hex,push,finalize}
// @bound: every sequence of 0..=9 chars, stop at first error
// @outside: longer inputs (decoder state is (buf, next mod group, padding flag), all values of which are reached within the bound); non-zero trailing bits are treated as don't-care (RFC 4648 3.5)
decode_harness!(c18_b32_decode_stop, base32::Decoder<FixedBuf<8>>, new_hex, 5, 9, 8, 11, true);
// @funcs: base32::Decoder<FixedBuf<8>>::{new_hex,push,finalize}
// @bound: every sequence of 0..=9 chars, pushing on after errors
// @outside: longer inputs (decoder state is (buf, next mod group, padding flag), all values of which are reached within the bound); non-zero trailing bits are treated as don't-care (RFC 4648 3.5)
decode_harness!(c18_b32_decode_cont, base32::Decoder<FixedBuf<8>>, new_hex, 5, 9, 8, 11, false);
// @funcs: base16::Decoder<FixedBuf<8>>::{new,push,finalize} (Builder = harness-local FixedBuf: element-wise append)
// @bound: every sequence of 0..=5 chars, stop at first error
// @outside: longer inputs (decoder state is (buf, next mod group, padding flag), all values of which are reached within the bound); non-zero trailing bits are treated as don't-care (RFC 4648 3.5)
decode_harness!(c18_b16_decode_stop, base16::Decoder<FixedBuf<8>>, new, 4, 5, 8, 10, true);
// @funcs: base16::Decoder<FixedBuf<8>>::{new,push,finalize} (Builder = harness-local FixedBuf: element-wise append)
// @bound: every sequence of 0..=5 chars, pushing on after errors
// @outside: longer inputs (decoder state is (buf, next mod group, padding flag), all values of which are reached within the bound); non-zero trailing bits are treated as don't-care (RFC 4648 3.5)
decode_harness!(c18_b16_decode_cont, base16::Decoder<FixedBuf<8>>, new, 4, 5, 8, 10, false);

// short target buffer: never a panic, never Ok with wrong octets
// @funcs: base64::Decoder<FixedBuf<2>>::push/finalize
// @bound: every sequence of 0..=8 chars, target capacity 2 octets (ShortBuf occurs)
#[kani::proof]
#[kani::unwind(10)]
fn c18_b64_decode_shortbuf() {
    let chars: [char; 8] = kani::any();
    let n: usize = kani::any();
    kani::assume(n <= 8);
    let mut dec = base64::Decoder::<FixedBuf<2>>::new();
    let mut i = 0;
    let mut errored = false;
    while i < n {
        errored |= dec.push(chars[i]).is_err();
        i += 1;
    }
    let mut want = [0u8; MAXD];
    let w = ref_decode(&chars, n, 6, &mut want);
    match dec.finalize() {
        Ok(octs) => {
            let s: &[u8] = octs.as_ref();
            assert!(w == Some(s.len()));
            assert!(s.len() <= 2);
            let mut j = 0;
            while j < s.len() {
                assert!(s[j] == want[j]);
                j += 1;
            }
        }
        Err(_) => {
            assert!(w.is_none() || w.unwrap() > 2);
        }
    }
    kani::cover!(errored && w.is_some(), "ShortBuf on well-formed text reachable");
}

// ------------------------------------------------------------- round trips

macro_rules! roundtrip_harness {
    ($name:ident, $disp:path, $dec:ty, $new:ident, $maxn:expr, $unw:expr) => {
        #[kani::proof]
        #[kani::unwind($unw)]
        fn $name() {
            let data: [u8; $maxn] = kani::any();
            let n: usize = kani::any();
            kani::assume(n <= $maxn);
            let mut sink = CharSink::<MAXD>::new();
            $disp(&data[..n], &mut sink).unwrap();
            let mut dec = <$dec>::$new();
            let mut i = 0;
            while i < sink.len {
                assert!(dec.push(sink.buf[i]).is_ok());
                i += 1;
            }
            let octs = dec.finalize().unwrap();
            let s: &[u8] = octs.as_ref();
            assert!(s.len() == n);
            let mut j = 0;
            while j < n {
                assert!(s[j] == data[j]);
                j += 1;
            }
            kani::cover!(n == $maxn, "longest input reachable");
        }
    };
}

// @funcs: base64::display, base64::Decoder
// @bound: every octet string of 0..=6 octets: decode(encode(x)) == x
roundtrip_harness!(c18_b64_roundtrip, base64::display, base64::Decoder<FixedBuf<8>>, new, 6, 10);
// @funcs: base32::display_hex, base32::Decoder
// @bound: every octet string of 0..=5 octets (one full group): decode(encode(x)) == x
roundtrip_harness!(c18_b32_roundtrip, base32::display_hex, base32::Decoder<FixedBuf<12>>, new_hex, 5, 11);
// @tier: thorough
// @timeout: 3000
// @funcs: base32::display_hex, base32::Decoder
// @bound: every octet string of 0..=8 octets: decode(encode(x)) == x
roundtrip_harness!(c18_b32_roundtrip_8, base32::display_hex, base32::Decoder<FixedBuf<12>>, new_hex, 8, 16);
// @funcs: base16::display, base16::Decoder
// @bound: every octet string of 0..=3 octets: decode(encode(x)) == x
roundtrip_harness!(c18_b16_roundtrip, base16::display, base16::Decoder<FixedBuf<8>>, new, 3, 8);

// thorough tier: longer texts
// @tier: thorough
// @timeout: 3000
// @funcs: base64::Decoder<FixedBuf<12>>::{new,push,finalize}
// @bound: every sequence of 0..=12 chars, pushing on after errors
decode_harness!(c18_b64_decode_cont_12, base64::Decoder<FixedBuf<12>>, new, 6, 12, 12, 14, false);
// @tier: thorough
// @timeout: 3000
// @funcs: base32::Decoder<FixedBuf<12>>::{new_hex,push,finalize}
// @bound: every sequence of 0..=16 chars, pushing on after errors
decode_harness!(c18_b32_decode_cont_16, base32::Decoder<FixedBuf<12>>, new_hex, 5, 16, 12, 18, false);
// @tier: thorough
// @timeout: 3000
// @funcs: base64::display, base64::Decoder
// @bound: every octet string of 0..=9 octets: decode(encode(x)) == x
roundtrip_harness!(c18_b64_roundtrip_9, base64::display, base64::Decoder<FixedBuf<12>>, new, 9, 14);
// the real octseq::Array builder (memcpy-based append) as a second instantiation
// @tier: thorough
// @timeout: 3000
// @funcs: base64::Decoder<octseq::Array<8>>::{new,push,finalize}
// @bound: every sequence of 0..=8 chars, pushing on after errors, octseq::Array<8> target
decode_harness!(c18_b64_decode_cont_array, base64::Decoder<Array<8>>, new, 6, 8, 8, 10, false);

// ---------------------------------------------- scanner-facing converters
use domain::base::scan::{ConvertSymbols, StrError, Symbol};

macro_rules! symconv_harness {
    ($name:ident, $conv:ty, $k:expr, $maxc:expr, $unw:expr) => {
        #[kani::proof]
        #[kani::unwind($unw)]
        fn $name() {
            let chars: [char; $maxc] = kani::any();
            let n: usize = kani::any();
            kani::assume(n <= $maxc);
            let mut conv = <$conv>::new();
            let mut out = [0u8; MAXD];
            let mut olen = 0usize;
            let mut errored = false;
            let mut i = 0;
            while i < n {
                match ConvertSymbols::<Symbol, StrError>::process_symbol(&mut conv, Symbol::Char(chars[i])) {
                    Ok(Some(d)) => {
                        let mut j = 0;
                        while j < d.len() {
                            out[olen] = d[j];
                            olen += 1;
                            j += 1;
                        }
                    }
                    Ok(None) => {}
                    Err(_) => {
                        errored = true;
                        break;
                    }
                }
                i += 1;
            }
            if !errored {
                match ConvertSymbols::<Symbol, StrError>::process_tail(&mut conv) {
                    Ok(Some(d)) => {
                        let mut j = 0;
                        while j < d.len() {
                            out[olen] = d[j];
                            olen += 1;
                            j += 1;
                        }
                    }
                    Ok(None) => {}
                    Err(_) => errored = true,
                }
            }
            let mut want = [0u8; MAXD];
            let w = ref_decode(&chars, n, $k, &mut want);
            // same verdict and octets as the reference (and therefore as Decoder, see the decode harnesses)
            assert!(errored == w.is_none());
            if let Some(wn) = w {
                assert!(olen == wn);
                let mut j = 0;
                while j < wn {
                    assert!(out[j] == want[j]);
                    j += 1;
                }
            }
            kani::cover!(errored, "ill-formed text rejected");
            kani::cover!(!errored && olen > 0, "text converted");
        }
    };
}

// @funcs: base64::SymbolConverter::{new,process_symbol,process_char,process_tail}
// @bound: every sequence of 0..=8 chars fed symbol by symbol, stopping at the first error as the scanner does: verdict and octets = independent RFC 4648 reference (so the converter agrees with Decoder and with any other chunking of the same text)
symconv_harness!(c18_b64_symbol_converter, base64::SymbolConverter, 6, 8, 10);
// @funcs: base32::SymbolConverter::{new,process_symbol,process_char,process_tail}
// @bound: every sequence of 0..=9 chars fed symbol by symbol
symconv_harness!(c18_b32_symbol_converter, base32::SymbolConverter, 5, 9, 11);
// @funcs: base16::SymbolConverter::{new,process_symbol,process_tail}
// @bound: every sequence of 0..=5 chars fed symbol by symbol
symconv_harness!(c18_b16_symbol_converter, base16::SymbolConverter, 4, 5, 10);
