// @@prop: X00
// @@fs: core
// @@timeout: 200
use crate::refmodel::*;
use domain::base::name::{Label, Name, ParsedName, ToLabelIter, ToName};
use octseq::parse::Parser;

// @funcs: x
#[kani::proof]
#[kani::unwind(6)]
#[kani::stub(core::slice::index::slice_index_fail, crate::stubs::slice_index_fail)]
fn x_parse_ref_all_concrete() {
    let buf: [u8; 8] = [1, 97, 0, 2, 98, 99, 0xC0, 0];
    let mut p = Parser::from_ref(&buf[..]);
    p.seek(3).unwrap();
    let r = ParsedName::parse_ref(&mut p);
    assert!(r.is_ok());
}
// @funcs: x
#[kani::proof]
#[kani::unwind(6)]
#[kani::stub(core::slice::index::slice_index_fail, crate::stubs::slice_index_fail)]
fn x_parse_ref_all_concrete_flat() {
    let buf: [u8; 8] = [1, 97, 0, 2, 98, 99, 0, 0];
    let mut p = Parser::from_ref(&buf[..]);
    p.seek(3).unwrap();
    let r = ParsedName::parse_ref(&mut p);
    assert!(r.is_ok());
}

use domain::base::iana::{Class, Rtype};
use domain::base::message_builder::MessageBuilder;
use domain::base::Ttl;
use domain::rdata::A;
// @funcs: x
#[kani::proof]
#[kani::unwind(10)]
fn x_builder_min() {
    let c: [u8; 3] = kani::any();
    let w = [2u8, c[0], c[1], 1, c[2], 0];
    let n = Name::from_octets(&w[..]).unwrap();
    let (qt, qc): (u16, u16) = (kani::any(), kani::any());
    let mut q = MessageBuilder::from_target(octseq::array::Array::<48>::new()).unwrap().question();
    q.push((n.clone(), Rtype::from_int(qt), Class::from_int(qc))).unwrap();
    assert!(q.as_slice().len() == 22);
    assert!(q.counts().qdcount() == 1);
}
