// @@prop: X00
// @@fs: core
// @@timeout: 200
use crate::refmodel::*;
use domain::base::name::{Label, Name, ParsedName, ToLabelIter, ToName};
use octseq::parse::Parser;

// @funcs: x
#[kani::proof]
#[kani::unwind(6)]
#[kani::stub(core::slice::index::slice_index_fail, crate::stubs::slice_index_fail)]
fn x_parse_ref_all_concrete() {
    let buf: [u8; 8] = [1, 97, 0, 2, 98, 99, 0xC0, 0];
    let mut p = Parser::from_ref(&buf[..]);
    p.seek(3).unwrap();
    let r = ParsedName::parse_ref(&mut p);
    assert!(r.is_ok());
}
// @funcs: x
#[kani::proof]
#[kani::unwind(6)]
#[kani::stub(core::slice::index::slice_index_fail, crate::stubs::slice_index_fail)]
fn x_parse_ref_all_concrete_flat() {
    let buf: [u8; 8] = [1, 97, 0, 2, 98, 99, 0, 0];
    let mut p = Parser::from_ref(&buf[..]);
    p.seek(3).unwrap();
    let r = ParsedName::parse_ref(&mut p);
    assert!(r.is_ok());
}
