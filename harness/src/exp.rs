// @@prop: X00
// @@fs: core
// @@timeout: 600
use crate::refmodel::*;
use domain::utils::{base16, base32, base64};
use octseq::array::Array;

fn rt64<const N: usize>() {
    let data: [u8; N] = kani::any();
    let mut sink = CharSink::<MAXD>::new();
    base64::display(&data[..], &mut sink).unwrap();
    let mut dec = base64::Decoder::<FixedBuf<8>>::new();
    let mut i = 0;
    while i < sink.len {
        assert!(dec.push(sink.buf[i]).is_ok());
        i += 1;
    }
    let octs = dec.finalize().unwrap();
    let s: &[u8] = octs.as_ref();
    assert!(s.len() == N);
    let mut j = 0;
    while j < N {
        assert!(s[j] == data[j]);
        j += 1;
    }
}
// @funcs: x
#[kani::proof]
#[kani::unwind(10)]
fn x_rt64_6() { rt64::<6>() }
// @funcs: x
#[kani::proof]
#[kani::unwind(10)]
fn x_rt64_5() { rt64::<5>() }
