//! Kani harnesses over NLnetLabs/domain (path dependency on /repo).
//! Everything is behind cfg(kani); `cargo build` of this crate is empty.
#![allow(unused_imports, dead_code, clippy::all)]

#[cfg(kani)]
mod refmodel;
#[cfg(kani)]
mod stubs;
#[cfg(kani)]
mod c01;
#[cfg(kani)]
mod c01p;
#[cfg(kani)]
mod c01m;
#[cfg(kani)]
mod c02;
#[cfg(kani)]
mod c03;
#[cfg(kani)]
mod c04;
#[cfg(kani)]
mod c05;
#[cfg(kani)]
mod c11;
#[cfg(kani)]
mod c12;
#[cfg(kani)]
mod c13;
#[cfg(kani)]
mod c17;
#[cfg(kani)]
mod c18;
#[cfg(all(kani, feature = "zt"))]
mod c09;
#[cfg(all(kani, feature = "net"))]
mod c15;
#[cfg(all(kani, feature = "val"))]
mod c14;
#[cfg(all(kani, feature = "val"))]
mod c12v;
