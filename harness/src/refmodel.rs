//! Independent reference models (written from the RFCs, not from the code
//! under test).  Everything uses fixed-size arrays and bounded loops so that
//! CBMC unwinds it cheaply.

pub const MAXD: usize = 24;

/// Digit value of `c` in the RFC 4648 alphabets. k = bits per digit.
pub fn digit_val(c: char, k: u32) -> Option<u8> {
    let c = c as u32;
    match k {
        6 => match c {
            0x41..=0x5A => Some((c - 0x41) as u8),      // A-Z
            0x61..=0x7A => Some((c - 0x61 + 26) as u8), // a-z
            0x30..=0x39 => Some((c - 0x30 + 52) as u8), // 0-9
            0x2B => Some(62),                           // +
            0x2F => Some(63),                           // /
            _ => None,
        },
        5 => match c {
            // base32hex, upper or lower case
            0x30..=0x39 => Some((c - 0x30) as u8),
            0x41..=0x56 => Some((c - 0x41 + 10) as u8),
            0x61..=0x76 => Some((c - 0x61 + 10) as u8),
            _ => None,
        },
        4 => match c {
            0x30..=0x39 => Some((c - 0x30) as u8),
            0x41..=0x46 => Some((c - 0x41 + 10) as u8),
            0x61..=0x66 => Some((c - 0x61 + 10) as u8),
            _ => None,
        },
        _ => None,
    }
}

/// Canonical (encoder) character for digit value v.
pub fn digit_char(v: u8, k: u32) -> char {
    let v = v as u32;
    let c = match k {
        6 => match v {
            0..=25 => 0x41 + v,
            26..=51 => 0x61 + v - 26,
            52..=61 => 0x30 + v - 52,
            62 => 0x2B,
            _ => 0x2F,
        },
        _ => {
            if v < 10 {
                0x30 + v
            } else {
                0x41 + v - 10
            }
        }
    };
    char::from_u32(c).unwrap()
}

/// Bit `i` (0 = most significant bit of octet 0) of data[..n]; zero beyond.
fn bit(data: &[u8], n: usize, i: usize) -> u8 {
    let o = i / 8;
    if o >= n {
        0
    } else {
        (data[o] >> (7 - (i % 8))) & 1
    }
}

/// RFC 4648 encoding of data[..n] with k bits per digit; returns the number
/// of characters written to out ('=' padding only for base64).
pub fn ref_encode(data: &[u8], n: usize, k: u32, out: &mut [char; MAXD]) -> usize {
    let k = k as usize;
    let nd = (n * 8 + k - 1) / k;
    let mut g = 0;
    while g < nd {
        let mut v = 0u8;
        let mut j = 0;
        while j < k {
            v = (v << 1) | bit(data, n, g * k + j);
            j += 1;
        }
        out[g] = digit_char(v, k as u32);
        g += 1;
    }
    let mut len = nd;
    if k == 6 {
        while len % 4 != 0 {
            out[len] = '=';
            len += 1;
        }
    }
    len
}

/// Reference decoder.  Returns None if chars[..n] is not well-formed text,
/// else the number of octets written to out.  Non-zero trailing bits are
/// accepted (RFC 4648 section 3.5 allows either).
pub fn ref_decode(chars: &[char], n: usize, k: u32, out: &mut [u8; MAXD]) -> Option<usize> {
    let mut nd = n;
    if k == 6 {
        if n % 4 != 0 {
            return None;
        }
        if nd > 0 && chars[nd - 1] == '=' {
            nd -= 1;
            if nd > 0 && chars[nd - 1] == '=' {
                nd -= 1;
            }
        }
        // data digits in the last group: 2 (==), 3 (=) or 4
        let tail = nd % 4;
        if n - nd == 2 && tail != 2 {
            return None;
        }
        if n - nd == 1 && tail != 3 {
            return None;
        }
    }
    let kk = k as usize;
    if (nd * kk) % 8 >= kk {
        return None;
    }
    let nbytes = nd * kk / 8;
    let mut vals = [0u8; MAXD];
    let mut i = 0;
    while i < nd {
        match digit_val(chars[i], k) {
            Some(v) => vals[i] = v,
            None => return None,
        }
        i += 1;
    }
    let mut o = 0;
    while o < nbytes {
        let mut b = 0u8;
        let mut j = 0;
        while j < 8 {
            let bi = o * 8 + j;
            let d = vals[bi / kk];
            let bitv = (d >> (kk - 1 - (bi % kk))) & 1;
            b = (b << 1) | bitv;
            j += 1;
        }
        out[o] = b;
        o += 1;
    }
    Some(nbytes)
}

/// A bounded `fmt::Write` sink that records characters.
pub struct CharSink<const N: usize> {
    pub buf: [char; N],
    pub len: usize,
    pub overflow: bool,
}

impl<const N: usize> CharSink<N> {
    pub fn new() -> Self {
        CharSink { buf: ['\0'; N], len: 0, overflow: false }
    }
}

impl<const N: usize> core::fmt::Write for CharSink<N> {
    fn write_str(&mut self, s: &str) -> core::fmt::Result {
        // the writers under test only emit ASCII through write_str
        let b = s.as_bytes();
        let mut i = 0;
        while i < b.len() {
            if self.len < N {
                self.buf[self.len] = b[i] as char;
                self.len += 1;
            } else {
                self.overflow = true;
            }
            i += 1;
        }
        Ok(())
    }
    fn write_char(&mut self, c: char) -> core::fmt::Result {
        if self.len < N {
            self.buf[self.len] = c;
            self.len += 1;
        } else {
            self.overflow = true;
        }
        Ok(())
    }
}

/// Harness-local octets builder: fixed array, element-wise append (no
/// memcpy), so that CBMC does not have to model byte-level copies at
/// symbolic offsets.  `CAP` is the capacity after which appends fail with
/// ShortBuf, like octseq::Array.
#[derive(Clone, Copy)]
pub struct FixedBuf<const CAP: usize> {
    pub data: [u8; CAP],
    pub len: usize,
}

impl<const CAP: usize> FixedBuf<CAP> {
    pub fn as_slice(&self) -> &[u8] {
        &self.data[..self.len]
    }
}

impl<const CAP: usize> AsRef<[u8]> for FixedBuf<CAP> {
    fn as_ref(&self) -> &[u8] {
        &self.data[..self.len]
    }
}

impl<const CAP: usize> AsMut<[u8]> for FixedBuf<CAP> {
    fn as_mut(&mut self) -> &mut [u8] {
        &mut self.data[..self.len]
    }
}

impl<const CAP: usize> octseq::builder::OctetsBuilder for FixedBuf<CAP> {
    type AppendError = octseq::builder::ShortBuf;
    fn append_slice(&mut self, slice: &[u8]) -> Result<(), Self::AppendError> {
        if slice.len() > CAP - self.len {
            return Err(octseq::builder::ShortBuf);
        }
        let mut i = 0;
        while i < slice.len() {
            self.data[self.len] = slice[i];
            self.len += 1;
            i += 1;
        }
        Ok(())
    }
}

impl<const CAP: usize> octseq::builder::EmptyBuilder for FixedBuf<CAP> {
    fn empty() -> Self {
        FixedBuf { data: [0; CAP], len: 0 }
    }
    fn with_capacity(_c: usize) -> Self {
        Self::empty()
    }
}

impl<const CAP: usize> octseq::builder::FreezeBuilder for FixedBuf<CAP> {
    type Octets = Self;
    fn freeze(self) -> Self {
        self
    }
}

impl<const CAP: usize> octseq::builder::Truncate for FixedBuf<CAP> {
    fn truncate(&mut self, len: usize) {
        if len < self.len {
            self.len = len;
        }
    }
}

// ------------------------------------------------------------------ names

/// RFC 4343 lower-casing: only 'A'..='Z' are touched.
pub fn lc(b: u8) -> u8 {
    if b >= 0x41 && b <= 0x5A { b + 0x20 } else { b }
}

use core::cmp::Ordering;

/// Lexicographic order of two octet strings after mapping through `f`
/// ("absence of an octet sorts before a zero octet").
pub fn lex_cmp(a: &[u8], b: &[u8], lower: bool) -> Ordering {
    let mut i = 0;
    loop {
        if i >= a.len() && i >= b.len() {
            return Ordering::Equal;
        }
        if i >= a.len() {
            return Ordering::Less;
        }
        if i >= b.len() {
            return Ordering::Greater;
        }
        let (x, y) = if lower { (lc(a[i]), lc(b[i])) } else { (a[i], b[i]) };
        if x < y {
            return Ordering::Less;
        }
        if x > y {
            return Ordering::Greater;
        }
        i += 1;
    }
}

/// A `Hasher` that records the octet stream it is fed.
pub struct RecHasher<const N: usize> {
    pub buf: [u8; N],
    pub len: usize,
    pub overflow: bool,
}

impl<const N: usize> RecHasher<N> {
    pub fn new() -> Self {
        RecHasher { buf: [0; N], len: 0, overflow: false }
    }
    pub fn same(&self, other: &Self) -> bool {
        if self.len != other.len || self.overflow || other.overflow {
            return false;
        }
        let mut i = 0;
        while i < self.len {
            if self.buf[i] != other.buf[i] {
                return false;
            }
            i += 1;
        }
        true
    }
}

impl<const N: usize> core::hash::Hasher for RecHasher<N> {
    fn finish(&self) -> u64 {
        0
    }
    fn write(&mut self, bytes: &[u8]) {
        let mut i = 0;
        while i < bytes.len() {
            if self.len < N {
                self.buf[self.len] = bytes[i];
                self.len += 1;
            } else {
                self.overflow = true;
            }
            i += 1;
        }
    }
    fn write_u8(&mut self, b: u8) {
        if self.len < N {
            self.buf[self.len] = b;
            self.len += 1;
        } else {
            self.overflow = true;
        }
    }
}

/// Is wire[..n] a valid uncompressed absolute name (RFC 1035 3.1)?
pub fn valid_absolute(wire: &[u8]) -> bool {
    let n = wire.len();
    if n == 0 || n > 255 {
        return false;
    }
    let mut pos = 0;
    loop {
        if pos >= n {
            return false;
        }
        let l = wire[pos] as usize;
        if l > 63 {
            return false;
        }
        if l == 0 {
            return pos + 1 == n;
        }
        pos += l + 1;
    }
}

/// Is wire[..n] a valid relative name (no root label, <= 254 octets)?
pub fn valid_relative(wire: &[u8]) -> bool {
    let n = wire.len();
    if n > 254 {
        return false;
    }
    let mut pos = 0;
    loop {
        if pos == n {
            return true;
        }
        if pos > n {
            return false;
        }
        let l = wire[pos] as usize;
        if l > 63 || l == 0 {
            return false;
        }
        pos += l + 1;
    }
}

/// valid_relative with a static label budget `k` (false if more labels).
pub fn valid_relative_k(wire: &[u8], k: usize) -> bool {
    let n = wire.len();
    if n > 254 {
        return false;
    }
    let mut pos = 0;
    let mut i = 0;
    while i < k {
        if pos == n {
            return true;
        }
        if pos > n {
            return false;
        }
        let l = wire[pos] as usize;
        if l > 63 || l == 0 {
            return false;
        }
        pos += l + 1;
        i += 1;
    }
    pos == n
}

/// valid_absolute with a static label budget `k` (non-root labels).
pub fn valid_absolute_k(wire: &[u8], k: usize) -> bool {
    let n = wire.len();
    if n == 0 || n > 255 {
        return false;
    }
    let mut pos = 0;
    let mut i = 0;
    while i <= k {
        if pos >= n {
            return false;
        }
        let l = wire[pos] as usize;
        if l > 63 {
            return false;
        }
        if l == 0 {
            return pos + 1 == n;
        }
        pos += l + 1;
        i += 1;
    }
    false
}

impl<const CAP: usize> domain::base::wire::Composer for FixedBuf<CAP> {}

// --------------------------------------------------------- message reader

/// Independent RFC 1035 4.1.4 name reader: decompresses the name at `pos`
/// into `out` (flat wire form).  Returns (flat length, position after the
/// name in the message) or None if malformed / more than `hops` pointers /
/// more than `labels` labels.
pub fn ref_read_name(msg: &[u8], pos: usize, out: &mut [u8; 32], labels: usize, hops: usize) -> Option<(usize, usize)> {
    let mut p = pos;
    let mut o = 0usize;
    let mut after: Option<usize> = None;
    let mut nl = 0;
    let mut nh = 0;
    loop {
        if p >= msg.len() {
            return None;
        }
        let b = msg[p] as usize;
        if b & 0xC0 == 0xC0 {
            if p + 1 >= msg.len() || nh >= hops {
                return None;
            }
            let t = ((b & 0x3F) << 8) | msg[p + 1] as usize;
            if after.is_none() {
                after = Some(p + 2);
            }
            if t >= p {
                return None;
            }
            p = t;
            nh += 1;
            continue;
        }
        if b > 63 {
            return None;
        }
        if o + 1 + b > 32 || p + 1 + b > msg.len() {
            return None;
        }
        out[o] = b as u8;
        let mut i = 0;
        while i < b {
            out[o + 1 + i] = msg[p + 1 + i];
            i += 1;
        }
        o += 1 + b;
        p += 1 + b;
        if b == 0 {
            return Some((o, after.unwrap_or(p)));
        }
        nl += 1;
        if nl > labels {
            return None;
        }
    }
}

/// Case-insensitive equality of two flat wire names.
pub fn wire_names_eq(a: &[u8], b: &[u8]) -> bool {
    if a.len() != b.len() {
        return false;
    }
    // label length octets are < 0x41, so lower-casing everything is safe
    let mut i = 0;
    while i < a.len() {
        if lc(a[i]) != lc(b[i]) {
            return false;
        }
        i += 1;
    }
    true
}


/// Variant of FixedBuf for code that appends long constant-size slices
/// (RtypeBitmapBuilder appends 34-octet blocks): slices longer than 8 octets
/// are copied with one memcpy instead of a long unwound loop.
#[derive(Clone, Copy)]
pub struct FixedBufM<const CAP: usize> {
    pub data: [u8; CAP],
    pub len: usize,
}

impl<const CAP: usize> AsRef<[u8]> for FixedBufM<CAP> {
    fn as_ref(&self) -> &[u8] {
        &self.data[..self.len]
    }
}

impl<const CAP: usize> AsMut<[u8]> for FixedBufM<CAP> {
    fn as_mut(&mut self) -> &mut [u8] {
        &mut self.data[..self.len]
    }
}

impl<const CAP: usize> octseq::builder::OctetsBuilder for FixedBufM<CAP> {
    type AppendError = octseq::builder::ShortBuf;
    fn append_slice(&mut self, slice: &[u8]) -> Result<(), Self::AppendError> {
        if slice.len() > CAP - self.len {
            return Err(octseq::builder::ShortBuf);
        }
        if slice.len() > 8 {
            let end = self.len + slice.len();
            self.data[self.len..end].copy_from_slice(slice);
            self.len = end;
            return Ok(());
        }
        let mut i = 0;
        while i < slice.len() {
            self.data[self.len] = slice[i];
            self.len += 1;
            i += 1;
        }
        Ok(())
    }
}

impl<const CAP: usize> octseq::builder::EmptyBuilder for FixedBufM<CAP> {
    fn empty() -> Self {
        FixedBufM { data: [0; CAP], len: 0 }
    }
    fn with_capacity(_c: usize) -> Self {
        Self::empty()
    }
}

impl<const CAP: usize> octseq::builder::FreezeBuilder for FixedBufM<CAP> {
    type Octets = Self;
    fn freeze(self) -> Self {
        self
    }
}

impl<const CAP: usize> octseq::builder::Truncate for FixedBufM<CAP> {
    fn truncate(&mut self, len: usize) {
        if len < self.len {
            self.len = len;
        }
    }
}

impl<const CAP: usize> domain::base::wire::Composer for FixedBufM<CAP> {}

impl<const CAP: usize> FixedBufM<CAP> {
    pub fn as_slice(&self) -> &[u8] {
        &self.data[..self.len]
    }
}

/// Name reader over *message contents* (the message without its 12-octet
/// header; pointers are message offsets, i.e. contents offset + 12).
/// `strict = false`: RFC 1035 rule as the established codec implements it
/// (a pointer must point before itself).  `strict = true`: the new codec's
/// documented rule (a pointer must point before the start of the run of
/// labels it terminates).  Returns (flat length, offset behind the name in
/// contents).
pub fn ref_read_name_contents(c: &[u8], start: usize, out: &mut [u8; 32], strict: bool, labels: usize, hops: usize) -> Option<(usize, usize)> {
    let mut p = start;
    let mut seg = start;
    let mut o = 0usize;
    let mut after: Option<usize> = None;
    let mut nl = 0;
    let mut nh = 0;
    loop {
        if p >= c.len() {
            return None;
        }
        let b = c[p] as usize;
        if b >= 0xC0 {
            if p + 1 >= c.len() || nh >= hops {
                return None;
            }
            let t = ((b & 0x3F) << 8) | c[p + 1] as usize;
            if t < 12 {
                return None;
            }
            let t = t - 12;
            if after.is_none() {
                after = Some(p + 2);
            }
            let limit = if strict { seg } else { p };
            if t >= limit {
                return None;
            }
            p = t;
            seg = t;
            nh += 1;
            continue;
        }
        if b > 63 {
            return None;
        }
        if p + 1 + b > c.len() {
            return None;
        }
        if o + 1 + b > 32 {
            return None;
        }
        out[o] = b as u8;
        let mut i = 0;
        while i < b {
            out[o + 1 + i] = c[p + 1 + i];
            i += 1;
        }
        o += 1 + b;
        p += 1 + b;
        if b == 0 {
            return Some((o, after.unwrap_or(p)));
        }
        nl += 1;
        if nl > labels {
            return None;
        }
    }
}

/// Verdict of the bounded reference reader.
#[derive(Clone, Copy, PartialEq, Eq)]
pub enum RefName {
    /// well-formed: (flat length incl. root, position behind the name, pointer followed after a label)
    Name(usize, usize, bool),
    /// malformed by RFC 1035 (bad label type, short input, pointer not pointing backwards)
    Malformed,
    /// not decided within the label / hop budget (the harness assumes this away)
    Budget,
}

/// RFC 1035 4.1.4 name reader with explicit budgets; flat form into `out`.
pub fn ref_read_name_b(msg: &[u8], pos: usize, out: &mut [u8; 32], labels: usize, hops: usize) -> RefName {
    ref_read_name_bl(msg, pos, out, labels, hops, 63)
}

/// As ref_read_name_b with a budget on the content length of each label.
pub fn ref_read_name_bl(msg: &[u8], pos: usize, out: &mut [u8; 32], labels: usize, hops: usize, maxlabel: usize) -> RefName {
    let mut p = pos;
    let mut o = 0usize;
    let mut after: Option<usize> = None;
    let mut nl = 0;
    let mut nh = 0;
    let mut compressed = false;
    loop {
        if p >= msg.len() {
            return RefName::Malformed;
        }
        let b = msg[p] as usize;
        if b & 0xC0 == 0xC0 {
            if p + 1 >= msg.len() {
                return RefName::Malformed;
            }
            let t = ((b & 0x3F) << 8) | msg[p + 1] as usize;
            if after.is_none() {
                after = Some(p + 2);
            }
            if t >= p {
                return RefName::Malformed;
            }
            if nh >= hops {
                return RefName::Budget;
            }
            if o > 0 {
                compressed = true;
            }
            p = t;
            nh += 1;
            continue;
        }
        if b > 63 {
            return RefName::Malformed;
        }
        if p + 1 + b > msg.len() {
            return RefName::Malformed;
        }
        if b != 0 && (nl >= labels || b > maxlabel) {
            return RefName::Budget;
        }
        if o + 1 + b > 32 {
            return RefName::Budget;
        }
        out[o] = b as u8;
        let mut i = 0;
        while i < b {
            out[o + 1 + i] = msg[p + 1 + i];
            i += 1;
        }
        o += 1 + b;
        p += 1 + b;
        if b == 0 {
            return RefName::Name(o, after.unwrap_or(p), compressed);
        }
        nl += 1;
    }
}
