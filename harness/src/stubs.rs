//! Stubs for panic *formatting* machinery only: the panic itself is kept
//! (Kani reports it as a failed check); what is cut is the symbolic
//! execution of core::fmt over the panic message arguments.

/// Replacement for core::slice::index::slice_index_fail (private, `-> !`):
/// same condition of use (called exactly when a range index is out of
/// bounds), message without formatted arguments.
pub fn slice_index_fail(_start: usize, _end: usize, _len: usize) -> ! {
    panic!("slice index out of range")
}

/// Replacement for core::result::unwrap_failed (private, `-> !`): keeps the
/// panic of a failed unwrap()/expect(), drops the Debug formatting of the
/// error value.
pub fn unwrap_failed(_msg: &str, _error: &dyn core::fmt::Debug) -> ! {
    panic!("called unwrap()/expect() on an Err value")
}
