"""Second engine: laws of loop-free integer kernels decided by z3 and cvc5 on
an SMT-LIB encoding regenerated from /repo's MIR on every run."""
import os, re, subprocess, time, shutil, json
from .translate import Exec, load_functions, Unsupported, Val, BV, BOOL, bv

ROOT = os.path.dirname(os.path.dirname(os.path.abspath(__file__)))
REPO = os.environ.get("VERIF_REPO", "/repo")
TDIR = os.path.join(ROOT, ".target", "mir")
SOLVERS = [("z3", ["/usr/bin/z3", "-in"]), ("cvc5", ["cvc5", "--lang", "smt2", "--incremental"])]


def dump_mir():
    t0 = time.time()
    fp = os.path.join(TDIR, "debug", ".fingerprint")
    if os.path.isdir(fp):
        for d in os.listdir(fp):
            if d.startswith("domain-") and not d.startswith("domain-macros"):
                shutil.rmtree(os.path.join(fp, d), ignore_errors=True)
    env = dict(os.environ)
    env["CARGO_NET_OFFLINE"] = "true"
    env.pop("RUSTFLAGS", None)
    p = subprocess.run(["cargo", "+nightly", "rustc", "--offline", "--lib", "--no-default-features", "--features", "std",
                        "--target-dir", TDIR, "--", "-Zunpretty=mir", "-C", "debug-assertions=off", "-C", "overflow-checks=on"],
                       cwd=REPO, env=env, stdout=subprocess.PIPE, stderr=subprocess.PIPE, text=True)
    if p.returncode != 0 or len(p.stdout) < 1000:
        raise Unsupported("MIR dump failed: " + p.stderr[-500:])
    return p.stdout, time.time() - t0


def opt_eq(x, y):
    return f"(and (= {x.a[0]} {y.a[0]}) (=> {x.a[0]} (= {x.a[1].a[1]} {y.a[1].a[1]})))"


def opt_is(x, ordv):
    if ordv is None:
        return f"(not {x.a[0]})"
    return f"(and {x.a[0]} (= {x.a[1].a[1]} {bv(ordv, 8)}))"


def serial(t):
    return Val("struct", [BV(32, t)])


def build_c17(ex, repo_src):
    P = ex.find(r"^serial::<impl at src/base/serial\.rs:[^>]*>::partial_cmp$")
    A = ex.find(r"^serial::<impl at src/base/serial\.rs:[^>]*>::add$")
    E = ex.find(r"^serial::<impl at src/base/serial\.rs:[^>]*>::eq$")
    paths = [0]

    def cmp(x, y):
        pan, v, unr, n = ex.summarize(P, [Val("ref", serial(x)), Val("ref", serial(y))])
        paths[0] += n
        return pan, v, unr

    def add(x, n):
        pan, v, unr, k = ex.summarize(A, [serial(x), BV(32, n)])
        paths[0] += k
        return pan, v.a[0][0].a[1], unr

    def eq(x, y):
        pan, v, unr, k = ex.summarize(E, [Val("ref", serial(x)), Val("ref", serial(y))])
        return v.a[0]

    decl = "(declare-const a (_ BitVec 32))(declare-const b (_ BitVec 32))(declare-const k (_ BitVec 32))(declare-const n (_ BitVec 32))"
    pab, cab, uab = cmp("a", "b")
    pba, cba, _ = cmp("b", "a")
    Q = []

    def q(name, neg, expect="unsat", vars_="a b k n", rust=None, note=""):
        Q.append({"name": name, "assert": neg, "expect": expect, "vars": vars_, "rust": rust, "note": note})

    zx = lambda t: f"((_ zero_extend 32) {t})"
    H = bv(1 << 31, 64)
    lt = f"(or (and (bvult {zx('a')} {zx('b')}) (bvult (bvsub {zx('b')} {zx('a')}) {H})) (and (bvugt {zx('a')} {zx('b')}) (bvugt (bvsub {zx('a')} {zx('b')}) {H})))"
    gt = f"(or (and (bvult {zx('a')} {zx('b')}) (bvugt (bvsub {zx('b')} {zx('a')}) {H})) (and (bvugt {zx('a')} {zx('b')}) (bvult (bvsub {zx('a')} {zx('b')}) {H})))"
    spec = f"(and (= {opt_is(cab, 0)} (= a b)) (= {opt_is(cab, 255)} {lt}) (= {opt_is(cab, 1)} {gt}) (= {opt_is(cab, None)} (and (not (= a b)) (not {lt}) (not {gt}))))"
    cmp_rust = "let (a,b)=({a}u32,{b}u32); let r=Serial(a).partial_cmp(&Serial(b)); let rev=Serial(b).partial_cmp(&Serial(a)); assert_eq!(rev, r.map(core::cmp::Ordering::reverse)); assert_eq!(r.is_none(), a.wrapping_sub(b)==0x8000_0000); let (x,y)=(a as u64,b as u64); let h=1u64<<31; let want = if x==y {{Some(core::cmp::Ordering::Equal)}} else if (x<y && y-x<h)||(x>y && x-y>h) {{Some(core::cmp::Ordering::Less)}} else if (x<y && y-x>h)||(x>y && x-y<h) {{Some(core::cmp::Ordering::Greater)}} else {{None}}; assert_eq!(r, want); assert_eq!(Serial(a)==Serial(b), r==Some(core::cmp::Ordering::Equal));"
    q("partial_cmp_never_panics", f"(or {pab} {uab})", rust="let _ = Serial({a}u32).partial_cmp(&Serial({b}u32));")
    q("partial_cmp_is_rfc1982", f"(not {spec})", rust=cmp_rust)
    rev = f"(and (= {cab.a[0]} {cba.a[0]}) (=> {cab.a[0]} (= {cba.a[1].a[1]} (bvneg {cab.a[1].a[1]}))))"
    q("partial_cmp_antisymmetric", f"(not {rev})", rust=cmp_rust)
    q("undefined_exactly_at_distance_2_31", f"(not (= (not {cab.a[0]}) (= (bvsub a b) {bv(1<<31,32)})))", rust=cmp_rust)
    _, cak, _ = cmp("(bvadd a k)", "(bvadd b k)")
    q("translation_invariant", f"(not {opt_eq(cab, cak)})",
      rust="let (a,b,k)=({a}u32,{b}u32,{k}u32); assert_eq!(Serial(a).partial_cmp(&Serial(b)), Serial(a.wrapping_add(k)).partial_cmp(&Serial(b.wrapping_add(k))));")
    pan_add, sum_, _ = add("a", "n")
    _, c_sa, _ = cmp(sum_, "a")
    _, c_as, _ = cmp("a", sum_)
    inrange = f"(and (bvuge n {bv(1,32)}) (bvule n {bv(0x7FFFFFFF,32)}))"
    add_rust = "let (a,n)=({a}u32,{n}u32); let t=Serial(a).add(n); assert_eq!(t.into_int(), a.wrapping_add(n)); if n>=1 {{ assert!(t > Serial(a)); assert!(Serial(a) < t); }} else {{ assert!(t == Serial(a)); }}"
    q("add_yields_strictly_greater", f"(and {inrange} (not (and (not {pan_add}) (= {sum_} (bvadd a n)) {opt_is(c_sa, 1)} {opt_is(c_as, 255)})))", rust=add_rust)
    q("add_panics_iff_addend_too_large", f"(not (= {pan_add} (bvugt n {bv(0x7FFFFFFF,32)})))",
      rust="let r = std::panic::catch_unwind(|| Serial({a}u32).add({n}u32)); assert_eq!(r.is_err(), {n}u32 > 0x7FFF_FFFF);")
    q("add_zero_is_identity", f"(and (= n {bv(0,32)}) (not (and (not {pan_add}) (= {sum_} a))))", rust=add_rust)
    q("eq_iff_some_equal", f"(not (= {eq('a','b')} {opt_is(cab, 0)}))", rust=cmp_rust)
    # reachability witnesses (must be sat: guards against a vacuous encoding)
    q("witness_undefined_pair_exists", opt_is(cab, None), expect="sat")
    q("witness_less_across_wrap_exists", f"(and {opt_is(cab, 255)} (bvugt a b))", expect="sat")
    # translator validation on the repo's own test vectors
    src = open(os.path.join(repo_src, "src/base/serial.rs")).read()
    vec = 0
    for m in re.finditer(r"assert_(eq|ne)!\(\s*Serial\(([\w_]+)\)\.partial_cmp\(&Serial\(([\w_]+)\)\),\s*(Some\((\w+)\)|None)\s*,?\s*\)", src):
        x, y = int(m.group(2).replace("_", ""), 0), int(m.group(3).replace("_", ""), 0)
        want = None if m.group(4) == "None" else {"Less": 255, "Equal": 0, "Greater": 1}[m.group(5)]
        holds = opt_is(cab, want)
        if m.group(1) == "ne":
            holds = f"(not {holds})"
        q(f"repo_test_vector_{vec}_{m.group(1)}_{x}_{y}", f"(and (= a {bv(x,32)}) (= b {bv(y,32)}) (not {holds}))", note="serial::test::comparison")
        vec += 1
    for m in re.finditer(r"assert_eq!\(\s*Serial\(([\w_]+)\)\.add\(([\w_]+)\),\s*Serial\(([\w_]+)\)\s*\)", src):
        x, y, z = [int(g.replace("_", ""), 0) for g in m.groups()]
        q(f"repo_test_vector_{vec}_add_{x}_{y}", f"(and (= a {bv(x,32)}) (= n {bv(y,32)}) (not (and (not {pan_add}) (= {sum_} {bv(z,32)}))))", note="serial::test::good_addition")
        vec += 1
    if vec < 5:
        raise Unsupported(f"only {vec} repo test vectors found for translator validation")
    header = "use domain::base::Serial;"
    return decl, Q, ["Serial::partial_cmp", "Serial::add", "Serial::eq"], paths[0], header


def build_c11(ex, repo_src):
    F = ex.find(r"^tsig::<impl at src/rdata/tsig\.rs:[^>]*>::eq_fudged$")
    t48 = lambda t: Val("struct", [BV(64, t)])
    pan, v, unr, n = ex.summarize(F, [t48("now"), t48("signed"), BV(64, "((_ zero_extend 48) fudge)")])
    decl = "(declare-const now (_ BitVec 64))(declare-const signed (_ BitVec 64))(declare-const fudge (_ BitVec 16))"
    rng = f"(and (bvult now {bv(1<<48,64)}) (bvult signed {bv(1<<48,64)}))"
    diff = "(ite (bvuge now signed) (bvsub now signed) (bvsub signed now))"
    Q = [
        {"name": "time_window_is_absolute_difference", "assert": f"(and {rng} (not (= {v.a[0]} (bvule {diff} ((_ zero_extend 48) fudge)))))", "expect": "unsat",
         "vars": "now signed fudge",
         "rust": "let (n,s,f)=({now}u64,{signed}u64,{fudge}u64); let d = if n>=s {{n-s}} else {{s-n}}; assert_eq!(Time48::from_u64(n).eq_fudged(Time48::from_u64(s), f), d<=f);", "note": ""},
        {"name": "time_window_never_panics", "assert": f"(and {rng} (or {pan} {unr}))", "expect": "unsat", "vars": "now signed fudge",
         "rust": "let _ = Time48::from_u64({now}u64).eq_fudged(Time48::from_u64({signed}u64), {fudge}u64);", "note": ""},
        {"name": "witness_outside_window_exists", "assert": f"(and {rng} (not {v.a[0]}))", "expect": "sat", "vars": "now signed fudge", "rust": None, "note": ""},
    ]
    return decl, Q, ["Time48::eq_fudged"], n, "use domain::rdata::tsig::Time48;"


def build_c13(ex, repo_src):
    F = ex.find(r"^split_rtype$")
    pan, v, unr, n = ex.summarize(F, [Val("struct", [BV(16, "t")])])
    blk, octet, mask = v.a[0][0].a[1], v.a[0][1].a[1], v.a[0][2].a[1]
    decl = "(declare-const t (_ BitVec 16))"
    want = (f"(and (= {blk} ((_ extract 15 8) t)) "
            f"(= {octet} ((_ zero_extend 59) ((_ extract 7 3) t))) "
            f"(= {mask} (bvlshr #x80 ((_ zero_extend 5) ((_ extract 2 0) t)))))")
    Q = [
        {"name": "split_rtype_is_window_octet_bit", "assert": f"(not {want})", "expect": "unsat", "vars": "t",
         "rust": "let t={t}u16; let mut b=RtypeBitmapBuilder::<Vec<u8>>::new(); b.add(Rtype::from_int(t)).unwrap(); let bm=b.finalize(); let d=bm.as_slice(); assert_eq!(d[0], (t>>8) as u8); assert_eq!(d[1] as usize, ((t&0xFF)>>3) as usize + 1); assert_eq!(d[d.len()-1], 0x80u8 >> (t&7)); assert!(bm.contains(Rtype::from_int(t)));",
         "note": "window = high octet, octet index = bits 7..3 of the low octet, mask = 0x80 >> low three bits (RFC 4034 4.1.2)"},
        {"name": "split_rtype_never_panics", "assert": f"(or {pan} {unr})", "expect": "unsat", "vars": "t", "rust": None, "note": ""},
        {"name": "witness_last_bit_of_last_window", "assert": f"(and (= {blk} #xff) (= {mask} #x01) (= {octet} (_ bv31 64)))", "expect": "sat", "vars": "t", "rust": None, "note": ""},
    ]
    return decl, Q, ["rdata::dnssec::split_rtype"], n, "use domain::base::iana::Rtype; use domain::rdata::dnssec::RtypeBitmapBuilder;"


def solve(decl, Q):
    script = "(set-logic ALL)\n" + decl + "\n"
    for qq in Q:
        script += f"(push 1)\n(assert {qq['assert']})\n(check-sat)\n"
        script += f"(get-value ({qq['vars']}))\n" if qq["expect"] == "unsat" else ""
        script += "(pop 1)\n"
    res = {}
    for name, cmd in SOLVERS:
        t0 = time.time()
        try:
            p = subprocess.run(cmd, input=script, stdout=subprocess.PIPE, stderr=subprocess.STDOUT, text=True, timeout=600)
            out = p.stdout
        except subprocess.TimeoutExpired:
            out = "(error timeout)"
        res[name] = {"raw": out, "secs": time.time() - t0}
    return res, script


def parse_answers(raw, Q):
    """One verdict per query; get-value after an unsat answer yields an (error ...) that belongs to that query."""
    toks = re.findall(r"^(sat|unsat|unknown)$|^(\(error.*)$|^(\(\(.*)$", raw, re.M)
    out = []
    i = 0
    lines = [l for l in raw.split("\n") if l.strip()]
    idx = 0
    for qq in Q:
        verdict, model = None, None
        while idx < len(lines) and lines[idx].strip() not in ("sat", "unsat", "unknown"):
            idx += 1
        if idx >= len(lines):
            out.append(("missing", None))
            continue
        verdict = lines[idx].strip()
        idx += 1
        if qq["expect"] == "unsat":
            # following line(s): model or error (error expected after unsat)
            buf = ""
            while idx < len(lines) and lines[idx].strip() not in ("sat", "unsat", "unknown"):
                buf += lines[idx]
                idx += 1
            if verdict == "sat":
                model = dict(re.findall(r"\((\w+) #[xb]([0-9a-fA-F]+)\)", buf))
                model = {k: (int(v, 16) if "#x" + v in buf else int(v, 2)) for k, v in model.items()}
            elif "error" in buf and "model is not available" not in buf and "unsat" not in buf.lower() and "cannot get value" not in buf.lower():
                verdict = "error:" + buf[:200]
        out.append((verdict, model))
    return out


def replay_native(prop, qname, header, rust_body):
    d = os.path.join(ROOT, "replay", prop, "mir2smt_" + qname)
    shutil.rmtree(d, ignore_errors=True)
    os.makedirs(os.path.join(d, "tests"))
    open(os.path.join(d, "Cargo.toml"), "w").write(
        '[package]\nname = "mir2smt_replay"\nversion = "0.0.0"\nedition = "2021"\n[dependencies]\ndomain = { path = "%s", default-features = false, features = ["std"] }\n[workspace]\n' % REPO)
    shutil.copy(os.path.join(ROOT, "harness", "Cargo.lock"), d)
    open(os.path.join(d, "tests", "replay.rs"), "w").write(header + "\n#[test]\nfn replay() {\n    " + rust_body + "\n}\n")
    env = dict(os.environ)
    env["CARGO_NET_OFFLINE"] = "true"
    p = subprocess.run(["cargo", "test", "--offline", "--test", "replay"], cwd=d, env=env, stdout=subprocess.PIPE, stderr=subprocess.STDOUT, text=True)
    shutil.rmtree(os.path.join(d, "target"), ignore_errors=True)
    failed = "test result: FAILED" in p.stdout or "panicked" in p.stdout
    open(os.path.join(d, "output.txt"), "w").write(p.stdout[-4000:])
    return d, failed


def run(prop, tier):
    t0 = time.time()
    results = []
    try:
        mir, dump_s = dump_mir()
        ex = Exec(load_functions(mir))
        decl, Q, funcs, npaths, header = {"C17": build_c17, "C11": build_c11, "C13": build_c13}[prop](ex, REPO)
        res, script = solve(decl, Q)
    except Unsupported as e:
        return [{"name": f"mir2smt::{prop}", "engine": "mir2smt", "verdict": "inconclusive", "note": f"translator: {e}", "wall_s": round(time.time() - t0, 1), "queries": 0}]
    os.makedirs(os.path.join(ROOT, ".logs"), exist_ok=True)
    open(os.path.join(ROOT, ".logs", f"mir2smt-{prop}.smt2"), "w").write(script)
    answers = {s: parse_answers(res[s]["raw"], Q) for s in res}
    reproduced_dir = [None]
    for i, qq in enumerate(Q):
        vs = {s: answers[s][i][0] for s in answers}
        verdict, note, rp = "pass", "", None
        if any(v != qq["expect"] for v in vs.values()):
            if qq["expect"] == "unsat" and all(v == "sat" for v in vs.values()):
                model = answers["z3"][i][1] or answers["cvc5"][i][1] or {}
                if qq.get("rust") and model and reproduced_dir[0]:
                    verdict, rp = "fail", reproduced_dir[0]
                    note = f"counterexample {model}; not replayed (another counterexample of this run already reproduced natively)"
                elif qq.get("rust") and model:
                    try:
                        body = qq["rust"].format(**{k: model.get(k, 0) for k in qq["vars"].split()})
                        rp, failed = replay_native(prop, qq["name"], header, body)
                        verdict = "fail" if failed else "nonrepro"
                        if failed:
                            reproduced_dir[0] = rp
                        note = f"counterexample {model}; native replay {'reproduced' if failed else 'did NOT reproduce'}"
                    except Exception as e:
                        verdict, note = "inconclusive", f"replay error {e}"
                else:
                    verdict, note = "inconclusive", f"law violated per both solvers but no replay template (translator validation vector?) model={model}"
            else:
                verdict, note = "inconclusive", f"solvers disagree or errored: {vs}"
        results.append({"name": f"mir2smt::{prop}::{qq['name']}", "engine": "mir2smt (MIR->QF_BV) / z3 4.8.12 + cvc5 1.0", "verdict": verdict,
                        "expect": qq["expect"], "answers": vs, "note": note or qq.get("note", ""), "replay": rp,
                        "functions": funcs, "bound": "full machine width; function must be loop-free", "queries": len(vs),
                        "wall_s": round(res["z3"]["secs"] + res["cvc5"]["secs"], 2) if i == 0 else 0.0,
                        "solver_s": round(res["z3"]["secs"] + res["cvc5"]["secs"], 2) if i == 0 else 0.0})
    results[0]["mir_dump_s"] = round(dump_s, 1)
    results[0]["paths_encoded"] = npaths
    return results
