"""MIR -> SMT-LIB2 (QF_BV) for loop-free integer functions.

Input: the text of `cargo +nightly rustc -- -Zunpretty=mir` for /repo.
A function is executed symbolically path by path (the CFG must be acyclic);
every value is an SMT-LIB term over bit-vectors.  Supported subset: see
DESIGN.md section 0.  Anything outside the subset raises Unsupported, which
the caller reports as *inconclusive* (never as a pass).
"""
import re


class Unsupported(Exception):
    pass


INT_W = {"u8": 8, "u16": 16, "u32": 32, "u64": 64, "usize": 64, "i8": 8, "i16": 16, "i32": 32, "i64": 64, "isize": 64}
ORD = {"Less": 255, "Equal": 0, "Greater": 1}


def bv(v, w):
    return f"(_ bv{v % (1 << w)} {w})"


class Val:
    """kinds: bv(w, term) | bool(term) | tuple([...]) | struct([...]) | opt(is_some term, Val) | ref(Val) | unit"""

    def __init__(self, kind, *a):
        self.kind = kind
        self.a = a

    def __repr__(self):
        return f"Val({self.kind},{self.a})"


def BV(w, t):
    return Val("bv", w, t)


def BOOL(t):
    return Val("bool", t)


def ite_val(c, x, y):
    if x.kind != y.kind:
        raise Unsupported(f"merge of {x.kind} and {y.kind}")
    if x.kind == "bv":
        return BV(x.a[0], f"(ite {c} {x.a[1]} {y.a[1]})")
    if x.kind == "bool":
        return BOOL(f"(ite {c} {x.a[0]} {y.a[0]})")
    if x.kind in ("tuple", "struct"):
        return Val(x.kind, [ite_val(c, p, q) for p, q in zip(x.a[0], y.a[0])])
    if x.kind == "opt":
        return Val("opt", f"(ite {c} {x.a[0]} {y.a[0]})", ite_val(c, x.a[1], y.a[1]))
    raise Unsupported("merge " + x.kind)


class Function:
    def __init__(self, name, header, body):
        self.name = name
        self.header = header
        self.blocks = {}
        self.types = {}
        m = re.search(r"\((.*)\) -> (.*) \{$", header)
        self.args = []
        if m:
            for a in split_top(m.group(1)):
                a = a.strip()
                if not a:
                    continue
                n, t = a.split(":", 1)
                self.args.append(n.strip())
                self.types[n.strip()] = t.strip()
        cur = None
        for ln in body:
            s = ln.strip()
            m = re.match(r"let (?:mut )?(_\d+): (.*);$", s)
            if m:
                self.types[m.group(1)] = m.group(2)
                continue
            m = re.match(r"(bb\d+)(?: \(cleanup\))?: \{$", s)
            if m:
                cur = m.group(1)
                self.blocks[cur] = []
                continue
            if s == "}" or s.startswith("debug ") or s.startswith("scope ") or not s:
                continue
            if cur is not None:
                self.blocks[cur].append(s)


def split_top(s):
    out, depth, cur = [], 0, ""
    for ch in s:
        if ch in "(<[":
            depth += 1
        elif ch in ")>]":
            depth -= 1
        if ch == "," and depth == 0:
            out.append(cur)
            cur = ""
        else:
            cur += ch
    out.append(cur)
    return out


def load_functions(mir_text):
    """Returns {header-name: Function} for fn and promoted const items."""
    fns = {}
    lines = mir_text.split("\n")
    i = 0
    while i < len(lines):
        ln = lines[i]
        m = re.match(r"^(?:fn|const) (.*?)(\(.*| = \{|: .* = \{)$", ln)
        if (ln.startswith("fn ") or ln.startswith("const ")) and ln.endswith("{"):
            j = i + 1
            body = []
            while j < len(lines) and lines[j] != "}":
                body.append(lines[j])
                j += 1
            if ln.startswith("fn "):
                name = ln[3:ln.index("(")]
                fns[name] = Function(name, ln, body)
            else:
                name = ln[6:ln.index(":", ln.index("promoted")) if "promoted" in ln else ln.index(":")]
                fns[name] = Function(name, "() -> x {", body)
            i = j
        i += 1
    return fns


class Exec:
    def __init__(self, fns):
        self.fns = fns
        self.fresh = 0
        self.decls = []

    def find(self, pattern):
        c = [n for n in self.fns if re.search(pattern, n)]
        if len(c) != 1:
            raise Unsupported(f"function pattern {pattern!r} matches {len(c)} items")
        return self.fns[c[0]]

    # ---- operands / places
    def const(self, txt, fn):
        txt = txt.strip()
        m = re.match(r"(-?\d+)_([ui](?:8|16|32|64|size))$", txt)
        if m:
            return BV(INT_W[m.group(2)], bv(int(m.group(1)), INT_W[m.group(2)]))
        if txt in ("true", "false"):
            return BOOL(txt)
        m = re.search(r"::promoted\[(\d+)\]$", txt)
        if m:
            # evaluate the promoted constant of the current function
            key = [n for n in self.fns if n.endswith(f"::promoted[{m.group(1)}]") and n.startswith(fn.name.split("(")[0])]
            if len(key) != 1:
                raise Unsupported("promoted lookup " + txt)
            outs = self.run(self.fns[key[0]], [])
            if len(outs) != 1 or outs[0][1] != "return":
                raise Unsupported("promoted not straight-line")
            return outs[0][2]
        raise Unsupported("const " + txt)

    def read_place(self, env, p):
        p = p.strip()
        m = re.match(r"\((.*)\.(\d+): [^)]*\)$", p)
        if m:
            base = self.read_place(env, m.group(1))
            if base.kind == "ref":
                base = base.a[0]
            if base.kind not in ("tuple", "struct"):
                raise Unsupported("field of " + base.kind)
            return base.a[0][int(m.group(2))]
        m = re.match(r"\(\*(.*)\)$", p)
        if m:
            v = self.read_place(env, m.group(1))
            if v.kind != "ref":
                raise Unsupported("deref of non-ref")
            return v.a[0]
        m = re.match(r"\((.*) as \w+\)$", p)
        if m:
            return self.read_place(env, m.group(1))
        if re.match(r"_\d+$", p):
            if p not in env:
                raise Unsupported("uninitialised " + p)
            return env[p]
        raise Unsupported("place " + p)

    def operand(self, env, o, fn):
        o = o.strip()
        if o.startswith("copy ") or o.startswith("move "):
            return self.read_place(env, o[5:])
        if o.startswith("const "):
            return self.const(o[6:], fn)
        raise Unsupported("operand " + o)

    def write_place(self, env, p, v):
        p = p.strip()
        if re.match(r"_\d+$", p):
            env[p] = v
            return
        m = re.match(r"\((_\d+)\.(\d+): [^)]*\)$", p)
        if m and m.group(1) in env and env[m.group(1)].kind in ("tuple", "struct"):
            old = env[m.group(1)]
            fields = list(old.a[0])
            fields[int(m.group(2))] = v
            env[m.group(1)] = Val(old.kind, fields)
            return
        raise Unsupported("write place " + p)

    # ---- rvalues
    def rvalue(self, env, rv, fn, dest_ty):
        rv = rv.strip()
        m = re.match(r"(\w+)\((.*)\)$", rv)
        binops = {"Add": "bvadd", "Sub": "bvsub", "Mul": "bvmul", "BitAnd": "bvand", "BitOr": "bvor", "BitXor": "bvxor"}
        cmps = {"Eq": "=", "Lt": "bvult", "Le": "bvule", "Gt": "bvugt", "Ge": "bvuge"}
        if m and m.group(1) in binops or m and m.group(1) in cmps or m and m.group(1) in ("Ne", "AddWithOverflow", "SubWithOverflow", "Shl", "Shr"):
            op = m.group(1)
            x, y = [self.operand(env, t, fn) for t in split_top(m.group(2))]
            if x.kind == "bool" and op in ("Eq", "Ne"):
                t = f"(= {x.a[0]} {y.a[0]})"
                return BOOL(t if op == "Eq" else f"(not {t})")
            if x.kind != "bv":
                raise Unsupported("binop on " + x.kind)
            w = x.a[0]
            if op in binops:
                return BV(w, f"({binops[op]} {x.a[1]} {y.a[1]})")
            if op in cmps:
                return BOOL(f"({cmps[op]} {x.a[1]} {y.a[1]})")
            if op == "Ne":
                return BOOL(f"(not (= {x.a[1]} {y.a[1]}))")
            if op in ("Shr", "Shl"):
                w2 = y.a[0]
                amt = y.a[1]
                if w2 < w:
                    amt = f"((_ zero_extend {w-w2}) {amt})"
                elif w2 > w:
                    amt = f"((_ extract {w-1} 0) {amt})"
                return BV(w, f"({'bvlshr' if op == 'Shr' else 'bvshl'} {x.a[1]} {amt})")
            if op == "SubWithOverflow":
                return Val("tuple", [BV(w, f"(bvsub {x.a[1]} {y.a[1]})"), BOOL(f"(bvult {x.a[1]} {y.a[1]})")])
            if op == "AddWithOverflow":
                s = f"(bvadd {x.a[1]} {y.a[1]})"
                return Val("tuple", [BV(w, s), BOOL(f"(bvult {s} {x.a[1]})")])
            raise Unsupported(op)
        mc = re.match(r"(.*) as (\w+) \(IntToInt\)$", rv)
        if mc:
            v = self.operand(env, mc.group(1), fn)
            w2 = INT_W[mc.group(2)]
            w = v.a[0]
            if w2 == w:
                return v
            if w2 < w:
                return BV(w2, f"((_ extract {w2-1} 0) {v.a[1]})")
            return BV(w2, f"((_ zero_extend {w2-w}) {v.a[1]})")
        if rv.startswith("copy ") or rv.startswith("move ") or rv.startswith("const "):
            return self.operand(env, rv, fn)
        if rv.startswith("&"):
            p = rv[1:].strip()
            if p.startswith("mut "):
                raise Unsupported("&mut")
            return Val("ref", self.read_place(env, p))
        m = re.match(r"discriminant\((.*)\)$", rv)
        if m:
            v = self.read_place(env, m.group(1))
            if v.kind == "bv" and v.a[0] == 8:  # Ordering is a repr(i8) enum modelled as bv8
                return BV(8, v.a[1])
            if v.kind == "opt":
                return BV(64, f"(ite {v.a[0]} {bv(1,64)} {bv(0,64)})")
            raise Unsupported("discriminant of " + v.kind)
        if rv in ORD:
            return BV(8, bv(ORD[rv], 8))
        m = re.match(r"Option::<.*>::Some\((.*)\)$", rv)
        if m:
            return Val("opt", "true", self.operand(env, m.group(1), fn))
        if re.match(r"Option::<.*>::None$", rv):
            if "Ordering" in dest_ty:
                return Val("opt", "false", BV(8, bv(0, 8)))
            raise Unsupported("None of " + dest_ty)
        m = re.match(r"(\w+)\((.*)\)$", rv)  # newtype / tuple struct constructor
        if m and m.group(1)[0].isupper():
            return Val("struct", [self.operand(env, t, fn) for t in split_top(m.group(2))])
        if rv.startswith("(") and rv.endswith(")") and not re.match(r"\(.*\.\d+: ", rv):
            # tuple aggregate
            return Val("tuple", [self.operand(env, t, fn) for t in split_top(rv[1:-1]) if t.strip()])
        m = re.match(r"(.*) as (\w+) \(IntToInt\)$", rv)
        if m:
            v = self.operand(env, m.group(1), fn)
            w2 = INT_W[m.group(2)]
            w = v.a[0]
            if w2 == w:
                return v
            if w2 < w:
                return BV(w2, f"((_ extract {w2-1} 0) {v.a[1]})")
            return BV(w2, f"((_ zero_extend {w2-w}) {v.a[1]})")
        raise Unsupported("rvalue " + rv)

    def call(self, env, callee, args, fn):
        a = [self.operand(env, t, fn) for t in split_top(args)] if args.strip() else []

        def deref(v):
            return v.a[0] if v.kind == "ref" else v
        m = re.match(r"<(u\d+|usize) as Ord>::cmp$", callee)
        if m:
            x, y = deref(a[0]), deref(a[1])
            return BV(8, f"(ite (bvult {x.a[1]} {y.a[1]}) {bv(255,8)} (ite (= {x.a[1]} {y.a[1]}) {bv(0,8)} {bv(1,8)}))")
        if re.match(r"(Rtype|Class|Opcode|Rcode)::to_int$", callee):
            v = a[0]
            return v.a[0][0] if v.kind == "struct" else v
        if callee == "core::cmp::Ordering::reverse":
            x = a[0]
            return BV(8, f"(bvneg {x.a[1]})")
        m = re.match(r"core::num::<impl (u\d+|usize)>::(\w+)$", callee)
        if m:
            w = INT_W[m.group(1)]
            x, y = a[0], a[1]
            op = m.group(2)
            if op == "wrapping_add":
                return BV(w, f"(bvadd {x.a[1]} {y.a[1]})")
            if op == "wrapping_sub":
                return BV(w, f"(bvsub {x.a[1]} {y.a[1]})")
            if op == "saturating_sub":
                return BV(w, f"(ite (bvult {x.a[1]} {y.a[1]}) {bv(0,w)} (bvsub {x.a[1]} {y.a[1]}))")
            if op == "saturating_add":
                s = f"(bvadd {x.a[1]} {y.a[1]})"
                return BV(w, f"(ite (bvult {s} {x.a[1]}) {bv((1<<w)-1,w)} {s})")
        raise Unsupported("call " + callee)

    # ---- path-by-path execution
    def run(self, fn, argvals):
        """Returns list of (path_condition_term, 'return'|'panic', value_or_msg)."""
        env0 = {}
        for n, v in zip(fn.args, argvals):
            env0[n] = v
        outs = []
        budget = [0]

        def go(bb, env, pc, depth):
            budget[0] += 1
            if depth > 200 or budget[0] > 5000:
                raise Unsupported("path explosion or cycle")
            env = dict(env)
            for st in fn.blocks[bb]:
                st = st.rstrip(";")
                if st.startswith("StorageLive") or st.startswith("StorageDead") or st.startswith("nop") or st.startswith("FakeRead") or st.startswith("PlaceMention"):
                    continue
                if st == "return":
                    outs.append((pc, "return", env.get("_0", Val("unit"))))
                    return
                if st == "unreachable":
                    outs.append((pc, "unreachable", None))
                    return
                m = re.match(r"goto -> (bb\d+)$", st)
                if m:
                    return go(m.group(1), env, pc, depth + 1)
                m = re.match(r"switchInt\((.*)\) -> \[(.*)\]$", st)
                if m:
                    v = self.operand(env, m.group(1), fn)
                    term = v.a[0] if v.kind == "bool" else v.a[1]
                    taken = []
                    for arm in split_top(m.group(2)):
                        k, t = [x.strip() for x in arm.split(":")]
                        if k == "otherwise":
                            c = "(and " + " ".join(f"(not {x})" for x in taken) + ")" if taken else "true"
                        elif v.kind == "bool":
                            c = f"(not {term})" if k == "0" else term
                        else:
                            c = f"(= {term} {bv(int(k), v.a[0])})"
                        if k != "otherwise":
                            taken.append(c)
                        go(t, env, f"(and {pc} {c})", depth + 1)
                    return
                m = re.match(r"assert\((!?)(.*?), \".*\"(?:, .*)?\) -> \[success: (bb\d+), unwind.*\]$", st)
                if m:
                    c = self.operand(env, m.group(2), fn)
                    cond = f"(not {c.a[0]})" if m.group(1) else c.a[0]
                    outs.append((f"(and {pc} (not {cond}))", "panic", "overflow assert"))
                    return go(m.group(3), env, f"(and {pc} {cond})", depth + 1)
                m = re.match(r"(_\d+) = panic\(.*\) -> unwind", st) or re.match(r"(_\d+) = core::panicking::\w+\(.*\) -> unwind", st)
                if m:
                    outs.append((pc, "panic", "explicit panic"))
                    return
                m = re.match(r"(.+?) = (.+?)\((.*)\) -> \[return: (bb\d+), unwind.*\]$", st)
                if m:
                    self.write_place(env, m.group(1), self.call(env, m.group(2).strip(), m.group(3), fn))
                    return go(m.group(4), env, pc, depth + 1)
                m = re.match(r"(.+?) = (.*)$", st)
                if m:
                    dest = m.group(1).strip()
                    self.write_place(env, dest, self.rvalue(env, m.group(2), fn, fn.types.get(dest, "")))
                    continue
                raise Unsupported("statement " + st)
            raise Unsupported("block without terminator " + bb)

        go("bb0", env0, "true", 0)
        return outs

    def summarize(self, fn, argvals):
        """(panic_condition_term, return Val merged over paths)"""
        outs = self.run(fn, argvals)
        panics = [pc for pc, k, _ in outs if k == "panic"]
        rets = [(pc, v) for pc, k, v in outs if k == "return"]
        unr = [pc for pc, k, _ in outs if k == "unreachable"]
        if not rets:
            raise Unsupported("no returning path")
        val = rets[-1][1]
        for pc, v in reversed(rets[:-1]):
            val = ite_val(pc, v, val)
        pan = "(or false " + " ".join(panics) + ")" if panics else "false"
        unreach = "(or false " + " ".join(unr) + ")" if unr else "false"
        return pan, val, unreach, len(outs)
