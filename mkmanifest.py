#!/usr/bin/env python3
"""Regenerates MANIFEST.json from the table below (kept in one place so the
manifest stays valid while checks are added)."""
import json, os, subprocess
ROOT = os.path.dirname(os.path.abspath(__file__))

KANI = "bounded model checking of the compiled real code: Kani 0.68 (MIR->GOTO) + CBMC 6.11 / CaDiCaL, symbolic inputs, unwinding assertions on"

CLAIMED = {
 "C17": dict(
    text="Every RFC 1982 law in the statement is decided by the SAT solver for all 2^32 x 2^32 serial pairs and all addends (no loop, so no bound other than machine width) on the compiled Serial::add/partial_cmp/eq, and again by z3 and cvc5 on an independent MIR->SMT-LIB encoding of the same functions.",
    note="Trusted: Kani's MIR->GOTO lowering + CBMC, and independently the mir2smt translator + z3/cvc5 (validated on every run against the repo's own test vectors). Serial::now and chrono/jiff conversions are outside the claim.",
    technique=KANI + "; plus MIR->SMT-LIB2 (QF_BV) translation decided by z3 and cvc5",
    ref="DESIGN.md §4 C17"),

 "C18": dict(
    text="For Base16, Base32hex and Base64: the encoders equal an independent RFC 4648 bit-level encoder, decode(encode(x)) == x, and the incremental decoders' final verdict (also when pushing on after errors, and with a too-small target) equals an independent reference decoder, for every octet string / every char sequence (full char range) up to the stated lengths; no panic, overflow or out-of-bounds access on any of them.",
    note="Bounds: quick <= 6/5/3 octets and <= 8/9/5 chars (b64/b32/b16); thorough up to 9 octets and 12/16 chars. Longer texts are outside the claim (the decoder state is (buf, position mod group, padding flag), all reached within the bound - an argument, not a solver result). Decoder target is a harness-local element-wise builder (octseq::Array in the thorough tier). Non-zero trailing bits are don't-care (RFC 4648 3.5). The scanner-facing SymbolConverter twins are checked against the same reference, symbol by symbol.",
    technique=KANI + "; differential against independent RFC 4648 reference encoder/decoder written in the harness crate",
    ref="DESIGN.md §4 C18"),
 "C03": dict(
    text="One-step induction over the name builder: from every builder state satisfying its representation invariant (any closed length 0..254, any open label 1..63, arbitrary content) each operation (push, append_slice, append_label, end_label, append_name, append_origin, append_dec_u8_label, append_hex_digit_label, finish, into_name) is decided by the solver to keep the invariant / produce a valid name, whether it returns Ok or Err, without panic or overflow. Histories of any length follow by induction. On the wire side, ParsedName::parse_ref accepts a four-label name (symbolic label lengths) ended by a root, a pointer to a root or a pointer to one more label exactly when the decompressed name has at most 255 octets, and reports that length; the validating constructors (Name/RelativeName::from_slice, UncertainName, Label::split_from, Chain) accept exactly what an independent validator accepts.",
    note="Pre-states are constructed through a cfg-guarded hook (NameBuilder::verif_from_parts). Appended slices/names are <= 5/4 octets (quick) or 6 (thorough); all (length, open-label) boundary pairs are reached through the symbolic pre-state. Validity of the whole name is composed from 'prefix octets untouched' + 'suffix valid' + 'total <= 254' (argument). Known finding D8 (255-octet relative names when a new label starts at len+n == 254, pinned by the repo's own test) is excluded from the main harnesses and asserted by witness harnesses. Builder target is the harness-local FixedBuf; ShortBuf paths, text parsing (from_chars) and slicing are covered by separate harnesses where listed in evidence, otherwise outside.",
    technique=KANI + "; inductive step from an arbitrary symbolic pre-state satisfying the representation invariant",
    ref="DESIGN.md §4 C03"),
 "C04": dict(
    text="Order/equality/hash laws decided for all triples of labels up to the stated length: cmp equals the RFC 4034 6.1 order (lexicographic over lower-cased octets) of an independent model, is antisymmetric and transitive, agrees with ==, equal labels feed identical octets to the hasher, case-insensitivity is exactly A-Z/a-z, composed orders equal bytewise order of the wire forms. The same coherence (== <=> Equal, antisymmetry, equal values hash equal, canonical order = order of canonical wire forms) is decided for character strings, names in two representations, A records with symbolic owner/class/TTL, A/DS/DNSKEY/MX/TXT/RRSIG/NSEC record data, opaque (unknown-type) record data over all pairs of record types, and the Unknown variant of the AllRecordData enum.",
    note="Bounds: labels <= 3 octets (quick), <= 5 (thorough); names, records and RDATA comparisons are added harness by harness (see evidence samples for what this run covered).",
    technique=KANI + "; algebraic laws + differential against an independent canonical-order model",
    ref="DESIGN.md §4 C04"),
 "C05": dict(
    text="Per record type: for every value within the stated field sizes the solver decides that compose_rdata, rdlen, compose_len_rdata and compose_canonical_rdata agree on length and content with an independent field-by-field layout, that parsing the composed octets gives back an equal value with nothing left over (name-free types), that unknown types are carried opaquely, and that the canonical form equals the wire form with exactly the embedded names lower-cased (name-bearing types, compose side).",
    note="Types covered so far are listed in evidence samples (A, AAAA, DS, CDS, DNSKEY, CDNSKEY, HINFO, TXT, SSHFP, TLSA, OPENPGPKEY, NULL, unknown; compose side of MX, SRV, SOA, NS, CNAME, PTR, DNAME). Octet fields are 0..3 symbolic octets; embedded names have a concrete label structure with symbolic content. The parse side of name-bearing types ('wire -> value -> wire') is decided for MX (quick) and the CNAME shape shared by NS/PTR/DNAME (thorough) on every 8-octet message with possibly compressed names, against the independent name reader (per-loop bounds for ParsedName::parse_ref, DESIGN section 2a); every value Txt::parse returns (empty RDATA included) has total accessors. SOA/SRV/MINFO parse side, SVCB, NSEC/NSEC3/RRSIG parse side, NAPTR, IPSECKEY, OPT are outside the claim.",
    technique=KANI + "; round trip + differential against an independent wire layout written in the harness",
    ref="DESIGN.md §4 C05"),
 "C02": dict(
    text="Pointer fidelity of name compression is decided in two lemmas: (A) for every usize position, the static compressor and the hash compressor's entry constructor remember a position only if it fits a 14-bit pointer, and truncation forgets exactly the positions at or beyond the new length; (B) for two names with symbolic label content appended through StaticCompressor, an independent RFC 1035 reader reconstructs exactly the appended names and pointers are only emitted for equal suffixes. Builder bookkeeping in one-push scripts: a push under any push limit succeeds exactly when it fits and a failed push leaves octets and counts untouched; going back from the additional section to any earlier section resets the counts and the octets; each header count increment adds exactly one and refuses to overflow; header setters touch only their own bits; a single MX record pushed into the answer or authority section and a single OPT record (symbolic payload size, version, DO, extended rcode, one raw option) produce exactly the RFC 1035 / RFC 6891 octets with back-patched RDLENGTH and the right section count. The multi-push script and the stream length prefix are thorough-tier harnesses.",
    note="A+B give fidelity at all offsets for the static compressor because its lookup does not depend on the absolute offset other than through the pointer encoding (argument, not solver result). TreeCompressor/HashCompressor beyond their position guards (hashbrown), BytesMut/Vec targets, op sequences longer than the scripted one, and messages beyond 72 octets are outside the claim. The multi-push builder script (plain and stream target, > 10 M SAT variables, ~10 min each with 14 GB) is in the thorough tier; the message-level round trips through the compressor do not finish and are in the unregistered experimental tier.",
    technique=KANI + "; guard lemmas via cfg-guarded hooks + differential against an independent RFC 1035 name reader",
    ref="DESIGN.md §4 C02"),
 "C11": dict(
    text="The MAC-independent kernels of TSIG: the time-window predicate equals |now - signed| <= fudge over the integers for all 48-bit times and 16-bit fudges (no wrap at 0 or 2^48-1), Time48 wire encoding round-trips, out-of-range times are rejected.",
    note="Everything involving a MAC (honest exchanges verify, tamper rejection, RFC 8945 digest layout, sequences, ID restoration) depends on ring's HMAC (FFI/assembly) and is outside the claim; rejection of all tampering reduces to HMAC unforgeability, which is not an SMT question.",
    technique=KANI + " on the loop-free integer kernels",
    ref="DESIGN.md §4 C11"),
 "C12": dict(
    text="The crypto-free parts: the validator's signed-data construction (RrsigExt::signed_data) equals an independent RFC 4034 3.1.8.1 / RFC 4035 5.3.2 construction - RRSIG RDATA prefix, lower-cased signer and owner, original TTL instead of the received one, wildcard owner rebuilt from the Labels field - for one A record under a two-label owner with all fields symbolic; Dnskey::key_tag equals RFC 4034 Appendix B (incl. B.1) for all field values and keys up to the stated length; the RRSIG Labels field (rrsig_label_count) ignores exactly the root and a leftmost asterisk label.",
    note="Outside: the signer side (sign_sorted_rrset_in), RRsets with several records (canonical ordering inside signed_data), other RDATA types in the RRset, signature generation/verification and DS digests (ring FFI), and 'altering any covered field makes verification fail' (cryptographic).",
    technique=KANI + "; differential against an independent Appendix B implementation",
    ref="DESIGN.md §4 C12"),
 "C13": dict(
    text="The NSEC type-bitmap builder: for symbolic record types (any window, any bit) added in any order, contains(t) <=> t was added, the wire form is well-formed per RFC 4034 4.1.2 (strictly ascending windows, length 1..32, last octet non-zero) and is accepted by the library's own validator.",
    note="Quick: 1 type through the builder, and contains() on arbitrary well-formed two-window wire bitmaps; thorough: 2 types in the same or in distinct windows. 3 windows and the bit-by-bit iterator run out of memory (experimental tier, not registered). generate_nsecs / generate_nsec3s (RecordsIter, cut tracking, ring SHA-1) are outside the claim.",
    technique=KANI + "; differential against an independent RFC 4034 4.1.2 bitmap reader; split_rtype additionally by MIR->SMT-LIB2 (z3 + cvc5)",
    ref="DESIGN.md §4 C13"),
 "C01": dict(
    text="The read-side kernels that CBMC can execute: ParsedName::skip (used by every section hop and record skip) accepts a name exactly when its uncompressed part is at most 255 octets and stops right behind it, for all four-label names up to the limit; the slice label iterator (Label::iter_slice) terminates on every 6-octet input from every start, stays fused after None, and never panics; the message view accepts exactly octet strings of at least 12 octets and every header/flag/count accessor returns the RFC 1035 bit field of the header octets; the compressed-name reader ParsedName::parse_ref agrees with an independent RFC 1035 4.1.4 reader on accept/reject, end position, decompressed length, compressed flag and every label (read back through ParsedName::iter) for every 4-octet message and every 6-octet message with a leading pointer, with each of its three loops ending inside its own bound; in the thorough tier the first question of every 18-octet one-question message equals the referenced name, QTYPE and QCLASS, and the answer section of every 33-octet one-question one-record message (owner of at most one short label, possibly compressed) yields exactly one item whose owner length, TYPE, CLASS, TTL, RDLENGTH and typed A data are the referenced octets, an error exactly when the record is malformed or cut short, and nothing afterwards.",
    note="parse_ref is decided with per-loop unwinding bounds (--unwindset, resolved against the linked GOTO binary on every run; DESIGN section 2a) under the assumption that the reference reader needs at most 2-3 labels and 1-3 pointer hops; label-bearing pointer cycles (which the reader ends through the 255-octet limit after up to 127 rounds) are outside. Typed EDNS option parsing was tried and runs out of memory (experimental tier, not registered). Record sections with more than one record, the authority/additional sections, canonical_name, is_answer, display and the XFR interpreter need several parse_ref calls per input and are outside the claim, so two of the three known counterexamples of this property (ANCOUNT overflow in canonical_name, non-XFR question in the XFR interpreter; both repaired and demonstrated natively under findings/) are not decided here. Typed RDATA parsing is covered under C05.",
    technique=KANI + "; termination via unwinding assertions with a pigeonhole bound, non-termination counterexamples replayed natively from the CBMC trace; per-loop bounds via CBMC --unwindset; differential against an independent RFC 1035 4.1.4 name reader",
    ref="DESIGN.md §4 C01"),
 "C09": dict(
    text="The sequential kernel of snapshot isolation, the per-item version vector: for a committed history and a writer working at the next version, every reader pinned at a committed version keeps seeing exactly its value through any two writer operations (update/remove/rollback), the writer sees its own last write, and rollback makes the open version invisible to everyone; the writer's version is strictly newer than every reader version within the RFC 1982 window, also across the 2^32 wrap.",
    note="Histories of one committed entry are decided (CBMC runs out of memory on the Vec growth paths for empty and two-entry histories; those variants are in the unregistered experimental tier). Real-thread schedules, the async write mutex, publication of the new version on commit, walk() and the zone tree itself (hashbrown + Arc + locks) are outside the claim: Kani does not model concurrency.",
    technique=KANI + "; differential against a version->value reference model, hook re-exports the private Versioned type",
    ref="DESIGN.md §4 C09"),
 "C15": dict(
    text="The demultiplexing kernel of the stream transports, the outstanding-query table: by one-step induction from every table state satisfying its representation invariant, insert never hands out an ID whose slot is occupied and stores exactly the request, try_remove returns exactly what was stored under that ID (nothing for free or out-of-range IDs) and does so once, insert_at fills a free slot, and count/curr stay consistent - so two live requests never share an ID and a reply looked up by ID reaches its own request.",
    note="Tables of 4 slots (the operations are index arithmetic over the slot vector); state constructed through a cfg-guarded hook. Everything asynchronous - timeouts, retries, TC fallback, connection state machine, redundant/load-balancing transports - and Message::is_answer (two question parses plus a ParsedName comparison per input; not reached) are outside the claim: Kani does not model concurrency.",
    technique=KANI + "; inductive step from an arbitrary symbolic pre-state satisfying the representation invariant",
    ref="DESIGN.md §4 C15"),
}

NA = {
 "C06": "record-level write->read needs zonefile::inplace::Zonefile, whose record dispatch (ZoneRecordData::scan, SVCB arm) makes kani-compiler 0.68 abort; the token-level kernels planned in DESIGN were not reached in this session (label Display->parse round trip is checked under C03, Base16/32/64 text under C18)",
 "C07": "the subject (zonefile::inplace::Zonefile::next_entry) cannot be compiled by kani-compiler 0.68 (ICE through ZoneRecordData::scan's SVCB arm, which cannot be stubbed); mir2smt does not apply (loops, heap)",
 "C08": "the answer algorithm lives in HashMap<OwnedLabel, Arc<ZoneNode>> behind parking_lot locks and async update paths; hashbrown with a random hasher does not finish even two concrete inserts under CBMC; no pure kernel carries the RFC 1034 4.3.2 semantics",
 "C10": "the interpreter consumes Message/ParsedRecord values, i.e. every input is a sequence of whole messages with SOA framing, each record costing one ParsedName::parse_ref call for the owner plus the calls inside SOA RDATA; one call is decided in 80-360 s under per-loop bounds (DESIGN section 2a), a minimal AXFR stream (SOA, one record, SOA with two names each) is far beyond that; the updater side is the zone tree (C08)",
 "C14": "chain-of-trust validation is async + moka + ring signatures; the pure denial-range helpers were tried: nsec3_in_range is decided, but nsec_in_range (Name<Bytes>) and nsec3_label_to_hash (Vec growth + from_utf8) run out of memory, which leaves a single harness - too little to claim the property; the hostile-label panic found while trying (D10) was repaired and is demonstrated natively",
 "C16": "every clause is about async tokio tasks, sockets, pipelining and three middleware layers; the only integer kernel (EDNS size clamp) is inline in an async fn; Kani does not model concurrency",
 "C19": "differential claim between the new codec and the established one: the established parser ParsedName::parse_ref is decided on its own since round 4 (DESIGN section 2a); the new-API reader was tried against two independent reference readers (harness/attic/c19.rs.txt) but CBMC runs out of memory on NameBuf's 255-octet buffer even for 4 symbolic octets; a genuine disagreement between the codecs found on the way (D11, pointer into the own label run) is demonstrated natively in findings/D11",
 "C20": "every cache kernel (validity, decrement_ttl, remove_dnssec, classify_no_error) takes a Message and walks all its records (several ParsedName::parse_ref calls per input, each 80-360 s under per-loop bounds, DESIGN section 2a, a one-question one-record walk alone takes 420 s and 7 GB under tight assumptions on the owner name, the cache kernels walk all sections and re-compose the message); storage is moka and time is tokio's clock",
}
PENDING = "check not built yet (work in progress in this session; see DESIGN.md §4 for the planned harnesses)"

def main():
    props = [json.loads(l)["id"] for l in open(os.path.join(ROOT, "properties.jsonl"))]
    hooks = []
    hf = os.path.join(ROOT, "hooks.json")
    if os.path.exists(hf):
        hooks = json.load(open(hf))["source_commits"]
    checks = []
    for p in props:
        if p in CLAIMED:
            c = CLAIMED[p]
            checks.append({
                "property_id": p,
                "quick_cmd": f"./check {p} --tier quick",
                "thorough_cmd": f"./check {p} --tier thorough",
                "evidence_file": f"/verif/evidence/{p}.json",
                "replay_cmd_template": "./check --replay {path}",
                "engine": "kani-cbmc" + ("+mir2smt" if "mir2smt" in c.get("technique", "") or "MIR->SMT" in c.get("technique", "") else ""),
                "level_claimed": {"category": "model_checking", "text": c["text"], "design_ref": c["ref"]},
                "level_note": c["note"],
                "technique": c["technique"],
            })
    na = [{"property_id": p, "reason": NA.get(p, PENDING)} for p in props if p not in CLAIMED]
    m = {
        "version": 1,
        "setup_cmd": "./setup.sh",
        "hooks": {
            "guard": "--cfg nlnetlabs_domain_verif",
            "enable": "RUSTFLAGS='--cfg nlnetlabs_domain_verif' (set by ./check for every cargo kani build of /verif/harness, whose path dependency is /repo)",
            "baseline_off_cmd": "cd /repo && cargo test --workspace --no-fail-fast --offline",
            "source_commits": hooks,
            "add_only": True,
        },
        "engines": [
            {"name": "kani-cbmc", "path": "/verif/harness", "serves_properties": sorted(CLAIMED),
             "kind_free_text": "out-of-tree Kani harness crate with a path dependency on /repo; driver /verif/check + /verif/vlib"},
            {"name": "mir2smt", "path": "/verif/mir2smt", "serves_properties": ["C17", "C11", "C13"],
             "kind_free_text": "nightly -Zunpretty=mir dump of /repo translated to QF_BV SMT-LIB2; z3 and cvc5 must agree"},
        ],
        "checks": checks,
        "not_applicable": na,
        "notes": "Exit 0 = all harnesses decided and held; 1 = VIOLATION (counterexample replayed natively); 2 = inconclusive (never a pass). See DESIGN.md.",
    }
    json.dump(m, open(os.path.join(ROOT, "MANIFEST.json"), "w"), indent=1)

if __name__ == "__main__":
    main()
