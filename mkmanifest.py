#!/usr/bin/env python3
"""Regenerates MANIFEST.json from the table below (kept in one place so the
manifest stays valid while checks are added)."""
import json, os, subprocess
ROOT = os.path.dirname(os.path.abspath(__file__))

KANI = "bounded model checking of the compiled real code: Kani 0.68 (MIR->GOTO) + CBMC 6.11 / CaDiCaL, symbolic inputs, unwinding assertions on"

CLAIMED = {
 "C17": dict(
    text="Every RFC 1982 law in the statement is decided by the SAT solver for all 2^32 x 2^32 serial pairs and all addends (no loop, so no bound other than machine width) on the compiled Serial::add/partial_cmp/eq, and again by z3 and cvc5 on an independent MIR->SMT-LIB encoding of the same functions.",
    note="Trusted: Kani's MIR->GOTO lowering + CBMC, and independently the mir2smt translator + z3/cvc5 (validated on every run against the repo's own test vectors). Serial::now and chrono/jiff conversions are outside the claim.",
    technique=KANI + "; plus MIR->SMT-LIB2 (QF_BV) translation decided by z3 and cvc5",
    ref="DESIGN.md §4 C17"),

 "C18": dict(
    text="For Base16, Base32hex and Base64: the encoders equal an independent RFC 4648 bit-level encoder, decode(encode(x)) == x, and the incremental decoders' final verdict (also when pushing on after errors, and with a too-small target) equals an independent reference decoder, for every octet string / every char sequence (full char range) up to the stated lengths; no panic, overflow or out-of-bounds access on any of them.",
    note="Bounds: quick <= 6/5/3 octets and <= 8/9/5 chars (b64/b32/b16); thorough up to 9 octets and 12/16 chars. Longer texts are outside the claim (the decoder state is (buf, position mod group, padding flag), all reached within the bound - an argument, not a solver result). Decoder target is a harness-local element-wise builder (octseq::Array in the thorough tier). Non-zero trailing bits are don't-care (RFC 4648 3.5). SymbolConverter twins are not yet covered.",
    technique=KANI + "; differential against independent RFC 4648 reference encoder/decoder written in the harness crate",
    ref="DESIGN.md §4 C18"),
}

NA = {
}
PENDING = "check not built yet (work in progress in this session; see DESIGN.md §4 for the planned harnesses)"

def main():
    props = [json.loads(l)["id"] for l in open(os.path.join(ROOT, "properties.jsonl"))]
    hooks = []
    hf = os.path.join(ROOT, "hooks.json")
    if os.path.exists(hf):
        hooks = json.load(open(hf))["source_commits"]
    checks = []
    for p in props:
        if p in CLAIMED:
            c = CLAIMED[p]
            checks.append({
                "property_id": p,
                "quick_cmd": f"./check {p} --tier quick",
                "thorough_cmd": f"./check {p} --tier thorough",
                "evidence_file": f"/verif/evidence/{p}.json",
                "replay_cmd_template": "./check --replay {path}",
                "engine": "kani-cbmc" + ("+mir2smt" if "mir2smt" in c.get("technique", "") or "MIR->SMT" in c.get("technique", "") else ""),
                "level_claimed": {"category": "model_checking", "text": c["text"], "design_ref": c["ref"]},
                "level_note": c["note"],
                "technique": c["technique"],
            })
    na = [{"property_id": p, "reason": NA.get(p, PENDING)} for p in props if p not in CLAIMED]
    m = {
        "version": 1,
        "setup_cmd": "./setup.sh",
        "hooks": {
            "guard": "--cfg nlnetlabs_domain_verif",
            "enable": "RUSTFLAGS='--cfg nlnetlabs_domain_verif' (set by ./check for every cargo kani build of /verif/harness, whose path dependency is /repo)",
            "baseline_off_cmd": "cd /repo && cargo test --workspace --no-fail-fast --offline",
            "source_commits": hooks,
            "add_only": True,
        },
        "engines": [
            {"name": "kani-cbmc", "path": "/verif/harness", "serves_properties": sorted(CLAIMED),
             "kind_free_text": "out-of-tree Kani harness crate with a path dependency on /repo; driver /verif/check + /verif/vlib"},
            {"name": "mir2smt", "path": "/verif/mir2smt", "serves_properties": ["C17", "C11"],
             "kind_free_text": "nightly -Zunpretty=mir dump of /repo translated to QF_BV SMT-LIB2; z3 and cvc5 must agree"},
        ],
        "checks": checks,
        "not_applicable": na,
        "notes": "Exit 0 = all harnesses decided and held; 1 = VIOLATION (counterexample replayed natively); 2 = inconclusive (never a pass). See DESIGN.md.",
    }
    json.dump(m, open(os.path.join(ROOT, "MANIFEST.json"), "w"), indent=1)

if __name__ == "__main__":
    main()
