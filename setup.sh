#!/bin/sh
# Offline setup: nothing is fetched.  Pre-compiles the harness crate (and
# /repo as its path dependency) with cargo-kani for every feature set so
# the first check does not pay the build.  Checks rebuild on their own
# whenever /repo changes, so this step is only a cache warm-up.
set -e
cd "$(dirname "$0")"
export CARGO_NET_OFFLINE=true
[ -f harness/Cargo.lock ] || cp /repo/Cargo.lock harness/Cargo.lock
mkdir -p evidence .logs
./check --build-only
