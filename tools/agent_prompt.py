#!/usr/bin/env python3
"""Prints the prompt given to a mutation sub-agent for one property."""
import json, sys
pid = sys.argv[1]
rec = [json.loads(l) for l in open('/verif/properties.jsonl') if json.loads(l)['id'] == pid][0]
wt = f"/tmp/wt_{pid}"
out = f"/tmp/seed_out/{pid}"
print(f"""You are helping to evaluate a verification effort for the Rust DNS library NLnetLabs/domain.
You have your own scratch git worktree of the library at {wt} (a normal checkout; build with cargo, always pass --offline; there is no network).
Work ONLY inside {wt} and write your deliverables to {out}/ . Do not read or touch /repo, /verif or any other directory.

Here is a semantic property of the library that is supposed to hold:

ID: {rec['id']}
Title: {rec['title']}
Statement: {rec['statement']}
Quantified over: {rec['quantifier']['text']}
Relevant files: {', '.join(rec['anchors']['files'])}
Mechanisms meant to make it hold: {'; '.join(m['name'] + ' @ ' + m['where'] for m in rec['anchors']['mechanism'])}

Your task: produce TWO different, independent, realistic source changes to the library (the kind of bug a maintainer could plausibly introduce in a refactoring or 'optimisation'), each of which
  (1) still compiles,
  (2) still passes the existing default test suite unchanged:  cd {wt} && cargo test --workspace --offline   (171 unit tests + doc tests run with default features), and
  (3) BREAKS the property above.
Prefer changes that need something specific to manifest - an unusual input, a boundary value, a particular multi-step sequence of operations, or two cooperating sites that each look fine alone - NOT changes that ordinary use would expose at once. Put the two changes in different functions / mechanisms.

For each change deliver a directory {out}/a/ and {out}/b/ containing:
  - patch.diff : `git diff` of the change relative to the worktree's HEAD (apply-able with `git apply`),
  - a demonstration: a self-contained Rust test (e.g. a file demo.rs to be dropped into {wt}/tests/ as an integration test, or a #[test] to append to a named source file - say exactly how to run it, including any --features needed) that FAILS with the change applied and PASSES without it,
  - README.md : which clause of the property it breaks, what specific input/sequence it needs in order to manifest, and the exact commands you ran with their results (build, existing tests with the change, demo with and without the change).
Verify all of (1)-(3) yourself by running the commands. When finished, restore the worktree to a clean state (git checkout -- . ; remove untracked files you added) and delete its build output (rm -rf {wt}/target) to save disk. Report briefly what the two changes are.""")
