#!/usr/bin/env python3
"""keep_seed.py <src_dir> <seed_id> <prop> <needs> <detected_by> <detail>"""
import sys, os, shutil, json, glob
src, sid, prop, needs, det, detail = sys.argv[1:7]
d = f"/verif/seeded/{sid}"
os.makedirs(d, exist_ok=True)
for f in glob.glob(src + "/*"):
    shutil.copy(f, d)
json.dump({"seed": sid, "property": prop, "needs_to_manifest": needs,
           "confirmed": "tools/validate_seed.sh in scratch worktree /tmp/wt_val: patch applies, default suite 171/171 passes with it, demo fails with it and passes without (see validation.txt)",
           "detected_by": det, "detail": detail,
           "how_run": "tools/try_seed.sh <patch.diff> <PROP> (git -C /repo apply; ./check; git -C /repo checkout -- .)"},
          open(d + "/meta.json", "w"), indent=1)
print("kept", d)
