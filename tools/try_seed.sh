#!/bin/bash
# usage: try_seed.sh <patch.diff> <PROP> [extra check args]  -- applies the patch to /repo, runs the check, restores /repo
P=$1; PROP=$2; shift 2
cd /repo && git diff --quiet || { echo "/repo not clean"; exit 9; }
git apply $P || exit 9
cd /verif && ./check $PROP --no-evidence "$@" 2>&1 | grep -E "^\[ *(fail|pass|timeout|error)|^VIOLATION|^INCONCLUSIVE|^OK|^ALSO|^KNOWN" | cut -c1-220
echo "exit=${PIPESTATUS[0]}"
git -C /repo checkout -- .
