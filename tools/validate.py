#!/opt/veriftools/pyvenv/bin/python3
import json, jsonschema, glob, sys
m = json.load(open('/verif/MANIFEST.json'))
jsonschema.validate(m, json.load(open('/root/.vp/MANIFEST.schema.json')))
es = json.load(open('/root/.vp/EVIDENCE.schema.json'))
bad = 0
for c in m['checks']:
    try:
        jsonschema.validate(json.load(open(c['evidence_file'])), es)
    except Exception as e:
        bad += 1
        print("BAD", c['property_id'], str(e)[:200])
props = [json.loads(l)['id'] for l in open('/verif/properties.jsonl')]
claimed = {c['property_id'] for c in m['checks']}
na = {x['property_id'] for x in m['not_applicable']}
assert claimed | na == set(props) and not (claimed & na)
print("manifest ok; claimed", sorted(claimed), "bad evidence", bad)
