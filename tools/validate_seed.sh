#!/bin/bash
# usage: validate_seed.sh <dir with patch.diff + demo*.rs> <name>
# Confirms in a scratch worktree: patch applies, builds, default suite passes,
# demo fails with the patch and passes without.  Writes <dir>/validation.txt
set -u
D=$1; NAME=$2
WT=/tmp/wt_val
export CARGO_NET_OFFLINE=true
if [ ! -d $WT ]; then git -C /repo worktree add -q --detach $WT HEAD; fi
cd $WT && git checkout -q --detach $(git -C /repo rev-parse HEAD) && git checkout -- . && git clean -fdq -e target
OUT=$D/validation.txt; : > $OUT
DEMO=$(ls $D/*.rs | head -1)
T=tests/seed_${NAME}.rs
FEAT=$(grep -ho -- '--features "\?[A-Za-z0-9,_-]*' $D/README.md | head -1 | tr -d '"')
echo "demo=$DEMO features=$FEAT" >> $OUT
cp $DEMO $T
echo "== demo WITHOUT patch" >> $OUT
cargo test --offline $FEAT --test seed_${NAME} 2>&1 | grep -E "^test result|error(\[|:)|panicked" | head -5 >> $OUT
git apply $D/patch.diff || { echo "PATCH DOES NOT APPLY" >> $OUT; exit 1; }
echo "== suite WITH patch" >> $OUT
rm -f $T
cargo test --workspace --offline 2>&1 | grep -E "^test result|error(\[|:)" | head -4 >> $OUT
cp $DEMO $T
echo "== demo WITH patch" >> $OUT
cargo test --offline $FEAT --test seed_${NAME} 2>&1 | grep -E "^test result|error(\[|:)|panicked" | head -5 >> $OUT
rm -f $T; git checkout -- . ; git clean -fdq -e target
cat $OUT
