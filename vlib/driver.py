import os, sys, re, json, time, argparse, concurrent.futures as cf, random
from . import registry, kani, replay

ROOT = kani.ROOT
EVID = os.path.join(ROOT, "evidence")
KNOWN = os.path.join(ROOT, "known_findings.json")


def load_known():
    if not os.path.exists(KNOWN):
        return []
    return json.load(open(KNOWN))["entries"]


def extra_engines(prop):
    """Non-Kani solver engines contributing queries to a property."""
    out = []
    if prop in ("C17", "C11", "C13"):
        try:
            from mir2smt import queries
            out.append(queries)
        except Exception as e:  # engine not built yet
            pass
    return out


def main(argv):
    ap = argparse.ArgumentParser()
    ap.add_argument("prop", nargs="?")
    ap.add_argument("--tier", default=os.environ.get("VERIF_TIER", "quick"), choices=["quick", "thorough", "experimental"])
    ap.add_argument("--only", default=None)
    ap.add_argument("--jobs", type=int, default=int(os.environ.get("VERIF_JOBS", "0")))
    ap.add_argument("--replay", default=None)
    ap.add_argument("--list", action="store_true")
    ap.add_argument("--build-only", action="store_true")
    ap.add_argument("--no-evidence", action="store_true")
    a = ap.parse_args(argv)
    seed = int(os.environ.get("VERIF_SEED", "0") or 0)

    if a.list:
        for h in registry.load():
            print(h["prop"], h["tier"], h["fs"], h.full, h["timeout"])
        return 0
    if a.replay and not os.path.exists(os.path.join(a.replay, "replay.json")) and os.path.exists(os.path.join(a.replay, "tests", "replay.rs")):
        # replay project written by the mir2smt engine: an ordinary cargo test against /repo
        import subprocess, shutil
        e = dict(os.environ)
        e["CARGO_NET_OFFLINE"] = "true"
        p = subprocess.run(["cargo", "test", "--offline", "--test", "replay"], cwd=a.replay, env=e,
                           stdout=subprocess.PIPE, stderr=subprocess.STDOUT, text=True)
        shutil.rmtree(os.path.join(a.replay, "target"), ignore_errors=True)
        print(p.stdout[-3000:])
        failed = "test result: FAILED" in p.stdout or "panicked" in p.stdout
        print("REPRODUCED" if failed else "NOT-REPRODUCED")
        return 1 if failed else 0
    if a.replay:
        ok, det = replay.run_dir(a.replay, verbose=True)
        print(json.dumps(det, indent=1))
        print("REPRODUCED" if ok else "NOT-REPRODUCED")
        return 1 if ok else 0
    if a.build_only:
        fss = sorted({h["fs"] for h in registry.load()}) if not a.prop else [a.prop]
        rc = 0
        for fs in fss:
            ok, secs = kani.build(fs, os.path.join(kani.LOGS, f"build-{fs}.log"))
            print(f"build {fs}: {'ok' if ok else 'FAILED'} {secs:.0f}s")
            rc |= 0 if ok else 2
        return rc

    prop = a.prop
    t_start = time.time()
    hs = registry.select(prop, a.tier)
    if a.only:
        hs = [h for h in hs if re.search(a.only, h.full)]
    if not hs:
        print(f"no harnesses for {prop}")
        return 2
    random.Random(seed).shuffle(hs)
    # longest first for packing
    hs.sort(key=lambda h: -h["timeout"])
    os.makedirs(kani.LOGS, exist_ok=True)
    builds = {}
    for fs in sorted({h["fs"] for h in hs}):
        log = os.path.join(kani.LOGS, f"build-{fs}.log")
        ok, secs = kani.build(fs, log)
        builds[fs] = {"ok": ok, "secs": round(secs, 1), "log": log}
        print(f"[build] {fs}: {'ok' if ok else 'FAILED'} in {secs:.0f}s", flush=True)
        if not ok:
            print(open(log, errors="replace").read()[-3000:])
    jobs = a.jobs or (6 if a.tier == "quick" else 4)
    ev_tier = "quick" if a.tier == "quick" else "thorough"
    mem = float(os.environ.get("VERIF_MEM_GB", "9" if a.tier == "quick" else "14"))
    tmul = float(os.environ.get("VERIF_TIME_MUL", "1"))
    results = {}

    def work(h):
        if not builds[h["fs"]]["ok"]:
            return h, {"verdict": "build_error", "wall_s": 0, "checks": 0, "failed": 0, "covers_total": 0,
                       "covers_sat": 0, "failed_checks": [], "functions": [], "unsat_covers": [],
                       "unwinding_failed": False, "property_failed": False, "log": builds[h["fs"]]["log"]}
        log = os.path.join(kani.LOGS, f"{h['prop']}-{h['name']}.log")
        r = kani.run(h, log, timeout=int(h["timeout"] * tmul), mem_gb=float(h.get("mem", mem)))
        return h, r

    with cf.ThreadPoolExecutor(max_workers=jobs) as ex:
        for h, r in ex.map(work, hs):
            results[h.full] = (h, r)
            print(f"[{r['verdict']:>7}] {h.full} checks={r['checks']} failed={r['failed']} "
                  f"covers={r['covers_sat']}/{r['covers_total']} {r['wall_s']}s", flush=True)

    # extra engines
    extra_results = []
    if not a.only:
        for eng in extra_engines(prop):
            extra_results += eng.run(prop, a.tier)
        for er in extra_results:
            print(f"[{er['verdict']:>7}] {er['name']} ({er['engine']}) {er.get('wall_s')}s", flush=True)

    known = load_known()
    violations, inconclusive, known_lines, also_failed = [], [], [], []
    replayed_keys = set()
    for full, (h, r) in sorted(results.items()):
        expect = h["expect"]
        v = r["verdict"]
        term = h.get("termination") == "true"
        if v == "pass":
            if r["covers_total"] and r["covers_sat"] < r["covers_total"] and h.get("covers") != "optional":
                inconclusive.append((h, f"vacuous: unsatisfied covers {r['unsat_covers']}"))
                r["verdict"] = "vacuous"
            elif expect == "fail":
                # a known-finding witness that now passes: the defect is gone; nothing to print
                r["note"] = "known-finding witness passes: defect no longer present"
            continue
        if v == "fail":
            is_viol = r["property_failed"] or (term and r["unwinding_failed"])
            if is_viol and violations and expect != "fail":
                # one natively reproduced counterexample is enough to report; do not spend
                # another native build per additional failing harness
                r["note"] = "failed; not replayed because another counterexample already reproduced"
                also_failed.append(h)
                continue
            if not is_viol:
                inconclusive.append((h, "unwinding assertion failed (bound too small) - not a pass"))
                r["verdict"] = "unwind"
                continue
            fk0 = h.get("finding")
            if expect == "fail" and fk0 and fk0 in replayed_keys and any(e.get("kind") == "finding" and e.get("key") == fk0 for e in known):
                # same known finding already reproduced natively through another witness harness
                r["verdict"] = "known-finding"
                r["note"] = "solver counterexample; native replay done once per finding key"
                continue
            # replay natively
            if term and r["unwinding_failed"] and not r["property_failed"]:
                rp = kani.run(h, os.path.join(kani.LOGS, f"{h['prop']}-{h['name']}.trace.log"),
                              extra=["-Z", "unstable-options", "--output-format", "old", "--cbmc-args", "--trace"],
                              timeout=int(h["timeout"] * tmul * 2), mem_gb=max(32.0, 3 * float(h.get("mem", mem))))
                text = open(rp["log"], errors="replace").read()
                tests = replay.tests_from_trace(h, text)
                if not tests:
                    inconclusive.append((h, "unwinding assertion failed in a termination harness but no trace values could be extracted"))
                    continue
                d = replay.make_dir(h, tests, text[-20000:])
                ok, det = replay.run_dir(d)
                ok = any(x.get("result") == "hang" for x in det)
                r["replay"] = {"dir": d, "reproduced": ok, "details": det}
                if ok:
                    violations.append((h, d, r))
                else:
                    inconclusive.append((h, f"non-termination counterexample did not hang natively: {det}"))
                    r["verdict"] = "nonrepro"
                continue
            rp = kani.run(h, os.path.join(kani.LOGS, f"{h['prop']}-{h['name']}.playback.log"),
                          extra=["-Z", "concrete-playback", "--concrete-playback=print"],
                          timeout=int(h["timeout"] * tmul * 2), mem_gb=max(32.0, 3 * float(h.get("mem", mem))))
            text = open(rp["log"], errors="replace").read()
            tests = replay.extract_tests(text)
            if h.get("should_panic") != "true":
                # keep only tests for failing checks, not for covers
                keep = [t for t in tests if "Check for `cover`" not in t[1]]
                tests = keep or tests
            if not tests:
                inconclusive.append((h, "failed but no concrete playback could be generated"))
                continue
            d = replay.make_dir(h, tests[:4], text)
            if h.get("should_panic") == "true":
                meta = json.load(open(os.path.join(d, "replay.json")))
                meta["expect_panic"] = False
                json.dump(meta, open(os.path.join(d, "replay.json"), "w"), indent=1)
            ok, det = replay.run_dir(d)
            if h.get("should_panic") == "true":
                ok = any(x.get("result") == "passed" for x in det)
            r["replay"] = {"dir": d, "reproduced": ok, "details": det}
            fk = h.get("finding")
            if ok and expect == "fail" and fk and any(e.get("kind") == "finding" and e.get("key") == fk for e in known):
                e = [e for e in known if e.get("key") == fk][0]
                known_lines.append(f"KNOWN-FINDING: property={prop} {fk}: {e['what']}")
                replayed_keys.add(fk)
                r["verdict"] = "known-finding"
            elif ok:
                violations.append((h, d, r))
            else:
                inconclusive.append((h, f"counterexample did not reproduce natively: {det}"))
                r["verdict"] = "nonrepro"
            continue
        inconclusive.append((h, f"{v} (see {r.get('log')})"))
    for er in extra_results:
        if er["verdict"] == "fail":
            violations.append(({"name": er["name"], "prop": prop}, er.get("replay", ""), er))
        elif er["verdict"] != "pass":
            inconclusive.append(({"name": er["name"]}, er.get("note", er["verdict"])))

    wall = time.time() - t_start
    if not a.no_evidence and not a.only:
        write_evidence(prop, ev_tier, seed, results, extra_results, builds, violations, inconclusive, known_lines, wall)
    for ln in known_lines:
        print(ln)
    for h, why in inconclusive:
        print(f"INCONCLUSIVE harness={h['name']} {why}")
    for h, d, r in violations:
        fc = "; ".join(c["desc"] for c in r.get("failed_checks", [])[:3]) if isinstance(r, dict) else ""
        print(f"VIOLATION property={prop} replay={d} harness={h['name']} {fc}")
    for h in also_failed:
        print(f"ALSO-FAILED harness={h['name']} (solver counterexample, not replayed)")
    if violations:
        return 1
    if inconclusive:
        return 2
    print(f"OK property={prop} tier={a.tier} harnesses={len(results)} extra_queries={len(extra_results)} wall={wall:.0f}s")
    return 0


def write_evidence(prop, tier, seed, results, extra, builds, violations, inconclusive, known_lines, wall):
    os.makedirs(EVID, exist_ok=True)
    samples, funcs = [], set()
    evaluations = 0
    nontrivial = 0
    assumes = set()
    for full, (h, r) in sorted(results.items()):
        evaluations += r["checks"] + r["covers_total"]
        decided = r["verdict"] in ("pass", "known-finding") or (r["verdict"] == "fail")
        if decided and (r["covers_total"] == 0 or r["covers_sat"] == r["covers_total"] or h.get("covers") == "optional"):
            nontrivial += 1
        fl = [f for f in r["functions"] if "vharness" not in f]
        funcs.update(fl)
        for s in h["assume"]:
            assumes.add(f"{h['name']}: assume {s}")
        for s in h["stub"]:
            assumes.add(f"{h['name']}: stub {s}")
        samples.append({
            "harness": full, "engine": "kani 0.68 / CBMC 6.11 / " + (h.get("solver") or "cadical"),
            "feature_set": h["fs"], "verdict": r["verdict"], "expect": h["expect"],
            "functions_declared": h["funcs"], "bound": h.get("bound"), "outside_claim": h["outside"],
            "repo_functions_with_checks": fl[:40], "n_repo_functions": len(fl),
            "checks_decided": r["checks"], "checks_failed": r["failed"],
            "covers": f"{r['covers_sat']}/{r['covers_total']}", "cbmc_s": r.get("cbmc_s"), "wall_s": r["wall_s"],
            "assumes": h["assume"], "stubs": h["stub"],
            "unwindset": h.get("unwindset"), "unwindset_resolved": h.get("_unwindset"), "unwindset_note": h.get("_unwindset_note"),
            "failed_checks": r["failed_checks"][:5], "replay": r.get("replay"),
        })
    for er in extra:
        evaluations += er.get("queries", 1)
        if er["verdict"] == "pass":
            nontrivial += 1
        samples.append(er)
        funcs.update(er.get("functions", []))
    ev = {
        "property_id": prop, "tier": tier, "seed": seed, "level": "model_checking",
        "coverage": {
            "evaluations": evaluations,
            "distinct_nontrivial": nontrivial,
            "rule": "one case = one solver-decided harness (all CBMC property checks + cover queries of a #[kani::proof] "
                    "function over symbolic inputs, unwinding assertions on) or one SMT query of the MIR encoding; "
                    "evaluations = number of individual checks/cover queries decided; a harness is non-trivial when "
                    "it was decided (not timeout/OOM/unwind) and every reachability cover in it was SATISFIED",
            "samples": samples,
            "functions_encoded": sorted(funcs)[:400],
            "n_functions_encoded": len(funcs),
            "builds": builds,
            "solver_time_s": round(sum((r.get("cbmc_s") or 0) for _, r in results.values()) + sum(e.get("solver_s", 0) for e in extra), 2),
            "inconclusive": [f"{h['name']}: {why}" for h, why in inconclusive],
            "known_findings_reported": known_lines,
            "exhaustive": False,
            "explanation": "bounded model checking of the real code compiled from /repo's working tree; nothing is claimed outside the per-harness bounds listed in samples[].bound/outside_claim",
        },
        "assumptions": sorted(assumes) + [
            "Kani 0.68 MIR->GOTO lowering and CBMC 6.11 are trusted; verdicts are bounded by each harness's unwind/size bound",
            "a timeout, OOM, unwinding failure or vacuous harness is reported as inconclusive (exit 2), never as a pass"],
        "wall_s": round(wall, 1),
        "violations": len(violations),
    }
    json.dump(ev, open(os.path.join(EVID, f"{prop}.json"), "w"), indent=1, default=str)
