"""Build the harness crate with cargo-kani against /repo's working tree and
run single harnesses under a time and memory cap; parse CBMC's verdicts."""
import os, re, shutil, signal, subprocess, time, resource, filecmp

ROOT = os.path.dirname(os.path.dirname(os.path.abspath(__file__)))
HARNESS = os.path.join(ROOT, "harness")
TARGET = os.path.join(ROOT, ".target")
LOGS = os.path.join(ROOT, ".logs")
REPO = os.environ.get("VERIF_REPO", "/repo")
GUARD = "nlnetlabs_domain_verif"


def env():
    e = dict(os.environ)
    e["CARGO_NET_OFFLINE"] = "true"
    e["RUSTFLAGS"] = f"--cfg {GUARD}"
    e.pop("RUSTUP_TOOLCHAIN", None)
    e["CARGO_TERM_COLOR"] = "never"
    return e


def sync_lock():
    src = os.path.join(REPO, "Cargo.lock")
    dst = os.path.join(HARNESS, "Cargo.lock")
    # The harness lock file is derived from /repo's (same versions of every
    # shared dependency).  Regenerate only if cargo complains; never fetch.
    if not os.path.exists(dst):
        shutil.copy(src, dst)


def base_cmd(fs):
    return ["cargo", "kani", "--features", fs, "--target-dir", os.path.join(TARGET, fs)]


def build(fs, log):
    """Compile /repo + harness crate to GOTO programs (cargo fingerprints the
    path dependency, so any edit under /repo is recompiled)."""
    sync_lock()
    os.makedirs(LOGS, exist_ok=True)
    t0 = time.time()
    cmd = base_cmd(fs) + ["--only-codegen", "-Z", "stubbing"]
    with open(log, "w") as f:
        p = subprocess.run(cmd, cwd=HARNESS, env=env(), stdout=f, stderr=subprocess.STDOUT)
    return p.returncode == 0, time.time() - t0


def _limits(mem_gb):
    def f():
        os.setsid()
        lim = int(mem_gb * (1 << 30))
        resource.setrlimit(resource.RLIMIT_AS, (lim, lim))
    return f


def resolve_unwindset(h, log):
    """`@unwindset: <regex>.<k>=<n>; ...` gives per-loop bounds: <regex> is
    searched in CBMC's pretty function name, <k> is CBMC's loop number inside
    that function.  Loop identifiers contain mangled names, so they are
    looked up in the linked GOTO binary of this very build: a first Kani run
    with `--cbmc-args --show-loops` links the harness (CBMC only lists loops
    and exits), then `cbmc --show-loops` on that binary gives the ids.
    Returns the `id:n,...` string or raises ValueError."""
    if h.get("_unwindset"):
        return h["_unwindset"]
    cmd = base_cmd(h["fs"]) + ["--harness", h.full, "--exact", "-Z", "stubbing", "-Z", "unstable-options",
                               "--cbmc-args", "--show-loops"]
    with open(log + ".loops", "w") as f:
        subprocess.run(cmd, cwd=HARNESS, env=env(), stdout=f, stderr=subprocess.STDOUT, timeout=1800)
    import glob
    name = h["name"]
    cands = [p for p in glob.glob(os.path.join(TARGET, h["fs"], "kani", "**", "out", f"*{len(name)}{name}.out"), recursive=True)
             if not p.endswith(".symtab.out")]
    if not cands:
        raise ValueError("no linked GOTO binary found for " + name)
    binary = max(cands, key=os.path.getmtime)
    out = subprocess.run(["cbmc", "--show-loops", binary], capture_output=True, text=True, timeout=600).stdout
    loops = re.findall(r"^Loop (\S+)\.(\d+):\n\s+file .*? function (.*)$", out, re.M)
    try:
        pairs = _match_unwindset(h["unwindset"], loops)
    except ValueError:
        # `@unwindset_fallback: <file regex>=<n>`: used only when the precise
        # entries no longer match (the function was restructured): every loop
        # located in a matching source file gets the uniform bound n
        fb = h.get("unwindset_fallback")
        m = re.match(r"(.+)=\s*(\d+)$", fb.strip()) if fb else None
        if not m:
            raise
        floops = re.findall(r"^Loop (\S+\.\d+):\n\s+file (\S+) ", out, re.M)
        pairs = [f"{lid}:{m.group(2)}" for lid, path in floops if re.search(m.group(1).strip(), path)]
        if not pairs:
            raise
        h["_unwindset_note"] = "precise entries stale; fallback bound applied to all loops of " + m.group(1).strip()
    h["_unwindset"] = ",".join(pairs)
    return h["_unwindset"]


def _match_unwindset(spec, loops):
    pairs = []
    for ent in spec.split(";"):
        ent = ent.strip()
        if not ent:
            continue
        m = re.match(r"(.+)\.(\d+)\s*=\s*(\d+)$", ent)
        if not m:
            raise ValueError("bad @unwindset entry: " + ent)
        rx, k, n = m.group(1).strip(), m.group(2), m.group(3)
        hit = [f"{lid}.{idx}" for lid, idx, pretty in loops if idx == k and re.search(rx, pretty)]
        if not hit:
            raise ValueError(f"@unwindset entry {ent!r} matches no loop of the harness binary")
        pairs += [f"{x}:{n}" for x in hit]
    return pairs


def run(h, log, extra=None, timeout=None, mem_gb=10):
    """Run one harness; returns a result dict."""
    cmd = base_cmd(h["fs"]) + ["--harness", h.full, "--exact", "-Z", "stubbing"]
    if h.get("solver"):
        cmd += ["--solver", h["solver"]]
    if extra:
        cmd += extra
    if h.get("unwindset"):
        try:
            us = resolve_unwindset(h, log)
        except Exception as e:  # noqa
            with open(log, "w") as f:
                f.write(f"unwindset resolution failed: {e}\n")
            r = parse("")
            r.update({"wall_s": 0, "cmd": " ".join(cmd), "log": log, "verdict": "error"})
            return r
        if "--cbmc-args" in cmd:
            cmd += ["--unwindset", us]
        else:
            if "unstable-options" not in cmd:
                cmd += ["-Z", "unstable-options"]
            cmd += ["--cbmc-args", "--unwindset", us]
    timeout = timeout or h["timeout"]
    t0 = time.time()
    status = "ok"
    with open(log, "w") as f:
        p = subprocess.Popen(cmd, cwd=HARNESS, env=env(), stdout=f, stderr=subprocess.STDOUT,
                             preexec_fn=_limits(mem_gb))
        try:
            p.wait(timeout=timeout)
        except subprocess.TimeoutExpired:
            status = "timeout"
            try:
                os.killpg(p.pid, signal.SIGKILL)
            except ProcessLookupError:
                pass
            p.wait()
    wall = time.time() - t0
    res = parse(open(log, errors="replace").read())
    res["wall_s"] = round(wall, 2)
    res["cmd"] = " ".join(cmd)
    res["log"] = log
    if status == "timeout":
        res["verdict"] = "timeout"
    return res


RE_CHECK = re.compile(r"^Check \d+: (.+)\n\t - Status: (\w+)\n\t - Description: \"(.*)\"\n\t - Location: (.*)$", re.M)


def parse(text):
    r = {"verdict": "error", "checks": 0, "failed": 0, "covers_total": 0, "covers_sat": 0,
         "failed_checks": [], "unwinding_failed": False, "functions": [], "cbmc_s": None,
         "unsat_covers": []}
    m = re.search(r"\*\* (\d+) of (\d+) failed", text)
    if m:
        r["failed"], r["checks"] = int(m.group(1)), int(m.group(2))
    m = re.search(r"\*\* (\d+) of (\d+) cover properties satisfied", text)
    if m:
        r["covers_sat"], r["covers_total"] = int(m.group(1)), int(m.group(2))
    m = re.search(r"Verification Time: ([0-9.]+)s", text)
    if m:
        r["cbmc_s"] = float(m.group(1))
    funcs = set()
    for cm in RE_CHECK.finditer(text):
        name, st, desc, loc = cm.groups()
        fm = re.search(r"repo/(src/\S+?):\d+:\d+ in function (.*)$", loc)
        if fm:
            funcs.add(fm.group(2).strip())
        if ".cover." in name or name.endswith(".cover") or re.search(r"\.cover\.\d+$", name):
            if st not in ("SATISFIED",):
                r["unsat_covers"].append(f"{desc} [{st}]")
            continue
        if st == "FAILURE":
            r["failed_checks"].append({"check": name, "desc": desc, "loc": loc})
            if "unwinding assertion" in desc:
                r["unwinding_failed"] = True
    r["functions"] = sorted(funcs)
    if re.search(r"VERIFICATION:- SUCCESSFUL", text):
        r["verdict"] = "pass"
    elif re.search(r"VERIFICATION:- FAILED", text):
        r["verdict"] = "fail"
    if re.search(r"Status: ERROR|CBMC failed|out of memory|std::bad_alloc|Killed|memory exhausted|SIGKILL|signal: 9|signal: 6", text) and r["verdict"] != "pass":
        r["verdict"] = "error"
    if re.search(r"error: could not compile|error\[E\d+\]|internal compiler error|Kani has encountered", text):
        r["verdict"] = "build_error"
    if r["verdict"] == "fail":
        real = [c for c in r["failed_checks"] if "unwinding assertion" not in c["desc"]]
        r["property_failed"] = bool(real) or not r["failed_checks"]
    else:
        r["property_failed"] = False
    return r
