"""Harness registry: parsed from `// @key: value` annotation blocks that
precede each #[kani::proof] function in /verif/harness/src/*.rs."""
import os, re, glob

ROOT = os.path.dirname(os.path.dirname(os.path.abspath(__file__)))
HSRC = os.path.join(ROOT, "harness", "src")

MULTI = {"assume", "stub", "funcs", "outside"}
DEFAULTS = {"tier": "quick", "fs": "core", "timeout": "600", "expect": "pass"}


class Harness(dict):
    def __getattr__(self, k):
        try:
            return self[k]
        except KeyError:
            raise AttributeError(k)

    @property
    def full(self):
        return f"{self['module']}::{self['name']}"


def load():
    out = []
    for path in sorted(glob.glob(os.path.join(HSRC, "**", "*.rs"), recursive=True)):
        rel = os.path.relpath(path, HSRC)
        module = rel[:-3].replace(os.sep, "::")
        if module.endswith("::mod"):
            module = module[:-5]
        lines = open(path, encoding="utf-8").read().split("\n")
        block = None
        filedefaults = {}
        for i, ln in enumerate(lines):
            m = re.match(r"\s*//\s*@@(\w+):\s*(.*\S)\s*$", ln)
            if m:  # file-level default
                filedefaults[m.group(1)] = m.group(2)
                continue
            m = re.match(r"\s*//\s*@(\w+):\s*(.*\S)\s*$", ln)
            if m:
                if block is None:
                    block = {}
                k, v = m.group(1), m.group(2)
                if k in MULTI:
                    block.setdefault(k, []).append(v)
                else:
                    block[k] = v
                continue
            if block is not None:
                m = re.match(r"\s*(?:pub\s+)?fn\s+(\w+)\s*\(", ln) or re.match(r"\s*\w+!\(\s*(\w+)\s*,", ln)
                if m:
                    h = Harness(DEFAULTS)
                    h.update(filedefaults)
                    h.update(block)
                    for k in MULTI:
                        h.setdefault(k, [])
                    h["name"] = m.group(1)
                    h["module"] = module
                    h["file"] = path
                    h["line"] = i + 1
                    h["timeout"] = int(h["timeout"])
                    if "prop" not in h:
                        raise SystemExit(f"{path}:{i+1}: harness {h['name']} lacks @prop")
                    out.append(h)
                    block = None
                elif ln.strip() == "" or ln.strip().startswith("#[") or ln.strip().startswith("//"):
                    pass
                else:
                    block = None
    names = [h.full for h in out]
    dup = {n for n in names if names.count(n) > 1}
    if dup:
        raise SystemExit(f"duplicate harness names: {dup}")
    return out


def select(prop, tier):
    hs = [h for h in load() if h["prop"] == prop]
    if tier == "quick":
        hs = [h for h in hs if h["tier"] == "quick"]
    elif tier == "thorough":
        # "experimental" harnesses are the ones measured not to finish within
        # memory/time on this machine; they are kept for documentation and
        # run only with --tier experimental
        hs = [h for h in hs if h["tier"] in ("quick", "thorough")]
    return hs
