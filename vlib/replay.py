"""Counterexample replay: Kani concrete playback -> ordinary #[test] run
natively against /repo (dev profile, then release-like profile)."""
import os, re, shutil, subprocess, json, signal, time
from . import kani

ROOT = kani.ROOT
REPLAY = os.path.join(ROOT, "replay")


def extract_tests(text):
    """Return list of (test_name, source) from a --concrete-playback=print log."""
    out = []
    for m in re.finditer(r"```\n(.*?)```", text, re.S):
        src = m.group(1)
        nm = re.search(r"fn (kani_concrete_playback_\w+)\(\)", src)
        if nm:
            out.append((nm.group(1), src))
    return out


def tests_from_trace(h, text, prop_pat=r"\.unwind\.\d+"):
    """Build a playback test from a raw CBMC trace (used for unwinding-assertion
    failures of termination harnesses, for which Kani's own concrete playback
    emits nothing).  Every assignment to the return value of kani::any_raw_* in
    the trace of the failing property becomes one concrete value."""
    m = re.search(r"^Trace for [^\n]*" + prop_pat + r":\n(.*?)(?=^Trace for |\Z)", text, re.S | re.M)
    if not m:
        return []
    vals = []
    for am in re.finditer(r"goto_symex\$\$return_value\$\$\S*any_raw\S*?(?:\[\d+\])?=\S+ \(([01 ]+)\)", m.group(1)):
        bits = am.group(1).replace(" ", "")
        if len(bits) % 8:
            return []
        by = [int(bits[i:i + 8], 2) for i in range(0, len(bits), 8)]
        by.reverse()  # little endian
        vals.append(by)
    name = "kani_concrete_playback_%s_trace" % h["name"]
    body = ",\n".join("        vec!%s" % (v,) for v in vals)
    src = ("/// Test built from the CBMC trace of a failed unwinding assertion (non-termination)\n"
           "#[test]\nfn %s() {\n    let concrete_vals: Vec<Vec<u8>> = vec![\n%s\n    ];\n"
           "    kani::concrete_playback_run(concrete_vals, %s);\n}\n" % (name, body, h["name"]))
    return [(name, src)]


def make_dir(h, tests, log_text):
    d = os.path.join(REPLAY, h["prop"], h["name"])
    if os.path.exists(d):
        shutil.rmtree(d)
    os.makedirs(d)
    shutil.copy(os.path.join(kani.HARNESS, "Cargo.toml"), d)
    shutil.copy(os.path.join(kani.HARNESS, "Cargo.lock"), d)
    shutil.copytree(os.path.join(kani.HARNESS, "src"), os.path.join(d, "src"))
    rel = os.path.relpath(h["file"], os.path.join(kani.HARNESS, "src"))
    with open(os.path.join(d, "src", rel), "a") as f:
        for _, src in tests:
            f.write("\n" + src + "\n")
    meta = {"property": h["prop"], "harness": h.full, "fs": h["fs"],
            "tests": [t for t, _ in tests], "termination": h.get("termination") == "true",
            "expect_panic": True}
    json.dump(meta, open(os.path.join(d, "replay.json"), "w"), indent=1)
    with open(os.path.join(d, "counterexample.log"), "w") as f:
        f.write(log_text[-20000:])
    return d


def _run(cmd, cwd, env, timeout):
    t0 = time.time()
    p = subprocess.Popen(cmd, cwd=cwd, env=env, stdout=subprocess.PIPE, stderr=subprocess.STDOUT,
                         preexec_fn=os.setsid, text=True, errors="replace")
    try:
        out, _ = p.communicate(timeout=timeout)
        return p.returncode, out, time.time() - t0
    except subprocess.TimeoutExpired:
        try:
            os.killpg(p.pid, signal.SIGKILL)
        except ProcessLookupError:
            pass
        out, _ = p.communicate()
        return "timeout", out or "", time.time() - t0


def run_dir(d, keep_target=False, verbose=False):
    """Natively run the playback tests in d.  Returns (reproduced, details)."""
    meta = json.load(open(os.path.join(d, "replay.json")))
    details = []
    reproduced = False
    for profile in ("dev", "release-like"):
        e = kani.env()
        if profile == "release-like":
            e["CARGO_PROFILE_DEV_OPT_LEVEL"] = "2"
            e["CARGO_PROFILE_DEV_DEBUG_ASSERTIONS"] = "false"
            e["CARGO_PROFILE_DEV_OVERFLOW_CHECKS"] = "false"
            e["CARGO_PROFILE_TEST_OPT_LEVEL"] = "2"
            e["CARGO_PROFILE_TEST_DEBUG_ASSERTIONS"] = "false"
            e["CARGO_PROFILE_TEST_OVERFLOW_CHECKS"] = "false"
        base = ["cargo", "kani", "playback", "-Z", "concrete-playback", "--features", meta["fs"]]
        rc, out, _ = _run(base + ["--only-codegen"], d, e, 1800)
        if rc != 0:
            details.append({"profile": profile, "result": "build-failed", "tail": out[-1500:]})
            continue
        for t in meta["tests"]:
            rc, out, secs = _run(base + ["--", "--exact", f"{meta['harness'].rsplit('::',1)[0]}::{t}"], d, e, 30 if meta["termination"] else 600)
            if rc == "timeout":
                res = "hang" if meta["termination"] else "timeout"
                rep = meta["termination"]
            elif "test result: FAILED" in out or "panicked at" in out:
                res, rep = "panicked", True
            elif "test result: ok. 1 passed" in out:
                res, rep = "passed", False
            else:
                res, rep = "unknown", False
            pm = re.search(r"panicked at (.*?)\n(.*?)\n", out)
            details.append({"profile": profile, "test": t, "result": res, "secs": round(secs, 1),
                            "panic": (pm.group(1) + " " + pm.group(2)) if pm else None})
            if verbose:
                print(out[-3000:])
            reproduced = reproduced or rep
        if reproduced:
            break
    if not keep_target:
        shutil.rmtree(os.path.join(d, "target"), ignore_errors=True)
    return reproduced, details
